(* R -- the reference assembler: whole-program statements obtained by composing C02 (address invariant),
   C01 (encode/decode), C06 (data directives) and C05's Spec.Arith.eval on ONE executable model,
   Model/Asm.v.  Only statements, each closed by [exact] of a lemma from Proofs/, then Print Assumptions.

   assemble_full enc p = XOk f : f_base, f_items (the placed statements: address, local scope, statement,
   size the layout advanced by; .repeat bodies expanded, each copy with its own addresses), f_chunks (the
   bytes of each placed statement, evaluated with the final symbol table), f_syms.
   assemble enc p = XOk (f_base, concat f_chunks, f_syms).
   [enc] is the output charset, universally quantified (bk_enc in the runs). *)
From Coq Require Import ZArith List String Ascii Bool NArith.
From Verif Require Import Base.Res Spec.PDP11 Spec.Arith Spec.DataSpec Model.Insns Model.Directives Model.Asm Model.AsmT Model.AsmRel
  Proofs.InsnsMain Proofs.AsmP Proofs.AsmSem Proofs.AsmTotal Proofs.AsmSized Proofs.AsmMeta Proofs.AsmLaws Proofs.AsmMove Proofs.AsmSup Proofs.AsmRelP Proofs.AsmLawSound Proofs.AsmLink Proofs.AsmReloc.
From Verif Require Model.Rad50.
Import ListNotations.
Notation length := Datatypes.length.
Notation concat := List.concat.
Open Scope string_scope.
Open Scope list_scope.
Open Scope Z_scope.

(* the image is what the pieces are (holds by the definition of assemble: kept as the bridge between the two
   functions, not as a fact about the layout) *)
Theorem R_image : forall enc p f, assemble_full enc p = XOk f ->
  assemble enc p = XOk (f_base f, concat (f_chunks f), f_syms f).
Proof. exact image_thm. Qed.
Print Assumptions R_image.

(* layout: the placed statements are the program's statements in order (repeat bodies copied, the
   base-fixing `. = e` recorded as a silent Link); statement number k was told the address
   base + (bytes of the image before it) -- that is its `.` --; its bytes are the image slice at
   (address - base); a label's value in the symbol table is that address; the image length is the sum of
   the sizes.  Derived from C02's address_invariant_block on the Block.stmt list of the program
   (every statement deferred, announcing the size the layout used). *)
Theorem R_layout : forall enc p f, assemble_full enc p = XOk f ->
  length (f_chunks f) = length (f_items f) /\
  (exists b', flat (layout_count enc (collect_defs 0 0 (cut_end p)) (collect_keys 0 0 (cut_end p)) (f_exports f)
                      (S (length (collect_defs 0 0 (cut_end p))))) false (cut_end p) (map i_stmt (f_items f)) b') /\
  (forall k it bs, nth_error (f_items f) k = Some it -> nth_error (f_chunks f) k = Some bs ->
      i_size it = zlen bs /\
      i_addr it = f_base f + zlen (concat (firstn k (f_chunks f))) /\
      firstn (length bs) (skipn (Z.to_nat (i_addr it - f_base f)) (concat (f_chunks f))) = bs /\
      (exists tail, skipn (Z.to_nat (i_addr it - f_base f)) (concat (f_chunks f)) = bs ++ tail) /\
      match i_stmt it with
      | Label n => klookup (KGlobal (fst (i_scope it)) n) (f_syms f) = Some (i_addr it)
      | LocalLabel n => exists sc, snd (i_scope it) = Some sc /\
                                   klookup (KLocal (fst (i_scope it)) sc n) (f_syms f) = Some (i_addr it)
      | _ => True
      end) /\
  zlen (concat (f_chunks f)) = fold_right (fun it acc => i_size it + acc) 0 (f_items f).
Proof. exact layout_thm. Qed.
Print Assumptions R_layout.

(* [flat] records, for every .repeat, as many copies of its body as its count expression evaluates to where the
   layout meets it ([layout_count]: Asm.lev + get_as_int(None, unsigned)); for a literal count that is the literal.
   [flat] threads the flag "the link base is fixed" (false at the start): only the `. = e` met while it is false is
   recorded as a silent Link, a .link is only met then, later `. = e` stay skips; .repeat bodies and included files
   leave the flag alone. *)
Theorem R_repeat_count_literal : forall enc alldefs allkeys exports fuel n k,
  layout_count enc alldefs allkeys exports fuel (numlit n) k -> k = n.
Proof. exact layout_count_literal. Qed.
Print Assumptions R_repeat_count_literal.

(* every instruction statement, also inside repeat copies: its operands evaluate (Spec.Arith.eval with the
   final symbol table, `.` = the statement's address) to source-level operands os, and -- unless an operand is
   an explicitly written (pc)+ / @(pc)+, C01_pc_autoinc_partial -- the Spec decoder applied to the image
   words starting at (address - base), at that address, returns the canonical operation and operands that
   the line "m os" denotes (Spec.PDP11.expect) and consumes exactly the statement's words *)
Theorem R_insn_decodes : forall enc p f k it bs m ops,
  assemble_full enc p = XOk f ->
  nth_error (f_items f) k = Some it -> nth_error (f_chunks f) k = Some bs -> i_stmt it = Insn m ops ->
  exists os ws,
    xmapM (eval_opnd (fev enc (f_exports f) (f_syms f) (i_scope it) (i_addr it))) ops = XOk os /\
    compile_insn m os (i_addr it) = Ok ws /\ bs = words_bytes ws /\
    (no_pc_autoinc os ->
     exists name sops,
       expect m os (i_addr it) = Some (name, sops) /\
       decode (Rad50.words_of_bytes (skipn (Z.to_nat (i_addr it - f_base f)) (concat (f_chunks f)))) (i_addr it)
       = Some (name, sops, length ws)).
Proof. exact insn_decodes_thm. Qed.
Print Assumptions R_insn_decodes.

(* every .byte / .word / .dword statement: the image slice at its address is DataSpec.value_bytes of the
   evaluated operands (one zero of the width when no operand is written); every value fits the width; word
   data sit at an even address *)
Theorem R_data_exact : forall enc p f k it bs w es,
  assemble_full enc p = XOk f ->
  nth_error (f_items f) k = Some it -> nth_error (f_chunks f) k = Some bs -> data_of (i_stmt it) = Some (w, es) ->
  exists vs,
    xmapM (fev enc (f_exports f) (f_syms f) (i_scope it) (i_addr it)) es = XOk vs /\
    bs = stated w vs /\ forallb (fits w) vs = true /\ (w = W8 \/ i_addr it mod 2 = 0) /\
    firstn (length bs) (skipn (Z.to_nat (i_addr it - f_base f)) (concat (f_chunks f))) = bs.
Proof. exact data_exact_thm. Qed.
Print Assumptions R_data_exact.

Theorem R_wordlist_exact : forall enc p f k it bs es,
  assemble_full enc p = XOk f ->
  nth_error (f_items f) k = Some it -> nth_error (f_chunks f) k = Some bs -> i_stmt it = WordList es ->
  exists vs,
    xmapM (fev enc (f_exports f) (f_syms f) (i_scope it) (i_addr it)) es = XOk vs /\
    bs = concat (map (value_bytes W16) vs) /\ forallb (fits W16) vs = true /\ i_addr it mod 2 = 0.
Proof. exact wordlist_exact_thm. Qed.
Print Assumptions R_wordlist_exact.

(* the composed model never ends in a Python exception (it inherits C01's rejected_is_error, C06's
   model_meets_spec and C15's totality), and the fuel assemble gives the demand-driven evaluation of
   definitions -- 1 + the number of definitions of the program -- always suffices *)
Theorem R_no_crash : forall enc p,
  (forall s, assemble enc p <> XCrash s) /\ assemble enc p <> XOutOfFuel.
Proof. exact no_crash_both. Qed.
Print Assumptions R_no_crash.

(* for every statement with an announced size (instructions: by operand form; .byte .word .dword word lists:
   the regenerated size lambdas) the guard below is redundant: whatever evaluates its expressions, if it
   emits without error it emits exactly the announced number of bytes (C02_insn_length_by_form and
   C06_announce_eq_emit composed) *)
Theorem R_sized_consistent : forall enc ev addr s r sz bs,
  sized_size s = Some r -> r = XOk sz -> emit_leaf enc ev addr s = XOk bs -> zlen bs = sz.
Proof. exact sized_consistent. Qed.
Print Assumptions R_sized_consistent.

(* ---- whole-program metamorphic laws (C03, C16) --------------------------------------------------------- *)
(* same_outcome r r': both XOk with the same base, the same image and symbol tables that look up alike, or both
   not XOk.  (The error identifiers can really differ: with `a = 1/0` and `b = undefined`, which error is met first
   in the order of the definition table changes when a moves behind b.) *)

(* R_move_def: a definition `n = e` may stand anywhere in its file before the End.  Hypotheses: no other label or
   definition is named n; e mentions no local-label name of the program and no `.` -- the two things a definition
   takes from its place (its local scope and its address); nothing between the two places is an End; the program
   file itself is not `.extern all` (then the export table lists the definitions in source order).  A definition
   that does use `.` or a local label means something else at the other place: see R_example_dot_def. *)
Theorem R_move_def : forall enc n e l1 l2 l3,
  Forall (fun y => is_end y = false) l1 -> Forall (fun y => is_end y = false) l2 ->
  forallb (nodef n) (l1 ++ l2 ++ l3) = true ->
  efree (lnames (l1 ++ l2 ++ l3)) e = true -> nodot e = true ->
  existsb (Nat.eqb 0) (snd (collect_exports 0 (l1 ++ l2 ++ l3))) = false ->
  same_outcome (assemble enc (l1 ++ Assign n e :: l2 ++ l3)) (assemble enc (l1 ++ l2 ++ Assign n e :: l3)).
Proof. exact move_def. Qed.
Print Assumptions R_move_def.

(* R_repeat_unroll: `.repeat n { body }` with a literal count is the body written out n times, each copy at its
   own addresses (its own `.`), anywhere in the program.  [plainf names body]: the body consists of instructions,
   data / fill / string directives, insert_file, nested .repeat (what the code allows inside a repeat: no labels,
   definitions, .link, `. =`, .include, .extern, .end) and mentions none of [names] = the local-label names of the
   program -- inside a .repeat no local label is visible, at the top level the current scope is.  n <= 65536: the
   code refuses more repetitions than that in one compilation (MAX_REPETITIONS), the written-out body has no such cap *)
Theorem R_repeat_unroll : forall enc l1 l2 n body,
  (Z.of_nat n <= 65536) ->
  forallb (plainf (lnames (l1 ++ l2))) body = true ->
  assemble enc (l1 ++ [Repeat (numlit n) body] ++ l2) = assemble enc (l1 ++ concat (repeat body n) ++ l2).
Proof. exact repeat_unroll. Qed.
Print Assumptions R_repeat_unroll.

(* R_insert_is_bytes: insert_file is .byte of its bytes *)
Theorem R_insert_is_bytes : forall enc l1 l2 bs,
  bs <> [] -> Forall (fun b => 0 <= b < 256) bs ->
  assemble enc (l1 ++ [Insert bs] ++ l2) = assemble enc (l1 ++ [Byte (map bytelit bs)] ++ l2).
Proof. exact insert_is_bytes. Qed.
Print Assumptions R_insert_is_bytes.

(* R_end_cuts: End discards exactly the rest of its file, whatever it is *)
Theorem R_end_cuts : forall enc l1 l2 l2', assemble_full enc (l1 ++ End :: l2) = assemble_full enc (l1 ++ End :: l2').
Proof. exact end_discards_rest. Qed.
Print Assumptions R_end_cuts.

(* the general principle behind the two segment laws: an inert segment X (nothing a collector sees) may be replaced
   by X' anywhere when their layouts agree up to a relation on placed statements that sizes and emission respect *)
Theorem R_segment_law : forall enc (R : item -> item -> Prop) names l1 l2 X X',
  (forall n, In n (lnames (l1 ++ l2)) -> smem n names = true) ->
  Forall quiet X -> Forall quiet X' ->
  (forall alldefs allkeys exports fuel st,
      keys_named names allkeys -> locals_named names (l_labels st) ->
      res_rel R (lay_list enc alldefs allkeys exports fuel false X st) (lay_list enc alldefs allkeys exports fuel false X' st)) ->
  (forall exports T it it', locals_named names T -> R it it' ->
      i_size it = i_size it' /\ emit_item enc exports T it = emit_item enc exports T it') ->
  assemble enc (l1 ++ X ++ l2) = assemble enc (l1 ++ X' ++ l2).
Proof. exact segment_law. Qed.
Print Assumptions R_segment_law.

(* R_supported: a syntactic class on which the model always decides.  [supported p] (Model/AsmT.v, boolean):
   file ids of the inclusions distinct; every expression the LAYOUT has to evaluate -- .repeat counts, .blkb/.blkw/
   .align operands, `. = e`, <n> in strings, the link base (which may not use `.` either) -- is made of literals,
   `.` and names defined in the same file only by literal expressions (no count / base through labels); no .link,
   `. =`, .include, .extern, .end inside a .repeat; no .link / `. =` inside an included file.  Then the only
   Unsupported answer left is the model's own size guard (R_guard_partial).  The proof rests on the agreement
   between the collectors and the layout: every collected label key is laid out, every collected definition has
   its address (Proofs/AsmSup.v: frame_program). *)
Theorem R_supported : forall enc p, supported p = true -> forall why, assemble enc p = XUnsup why -> why = "size-guard".
Proof. exact supported_thm. Qed.
Print Assumptions R_supported.

(* R_law_sound: the bridge between the law theorems and their correspondence streams.  [law_pair l p] are the two
   programs the stream compares for the law l at its positions (Model/AsmT.v: move the definition at i to j, write
   out the repeat at i, insert_file at i as .byte, End before k), [law_hyps l p] is the boolean the stream evaluates
   before judging.  The hypotheses of R_move_def / R_repeat_unroll / R_insert_is_bytes / R_end_cuts follow from it,
   for forward and backward moves and for a literal count in any spelling; so the two programs have the same
   outcome, and bit 4 of Run/RRun.judge_law ("the model violates the law") is never set. *)
Theorem R_law_sound : forall enc l p a b, law_pair l p = Some (a, b) -> law_hyps l p = true ->
  same_outcome (assemble enc a) (assemble enc b).
Proof. exact law_sound. Qed.
Print Assumptions R_law_sound.

Theorem R_law_sound_bool : forall enc l p a b, law_pair l p = Some (a, b) -> law_hyps l p = true ->
  res_same (assemble enc a) (assemble enc b) = true.
Proof. exact law_sound_bool. Qed.
Print Assumptions R_law_sound_bool.

(* ---- several files given to the linker ------------------------------------------------------------------------
   [link f1 rest] (Model/AsmT.v): the first file up to its End, then every further file (file id, statements) as a
   block with its own names that shares -- and may fix -- the link base (Include false; compile_and_link_files).
   R_link_is_concat: the placed statements are the files' blocks one after the other; block k is the flattening of
   file k up to that file's End; its statements are evaluated with the names of file k (or of a file it includes:
   [in_files]), so private names stay private, and exported names are found through f_exports (R_insn_decodes /
   R_data_exact use sym_of f_exports); the blocks lie at consecutive addresses ([chain]: each statement at the
   address where the previous one ended, the first block at the base), hence by R_layout the image is the
   concatenation of the blocks' bytes. *)
Theorem R_link_is_concat : forall enc f1 rest f, assemble_full enc (link f1 rest) = XOk f ->
  let q := link f1 rest in
  let D := collect_defs 0 0 q in let K := collect_keys 0 0 q in let fuel := S (length D) in
  exists I1 Is a1,
    f_items f = I1 ++ concat Is /\
    (exists b1, flat (layout_count enc D K (f_exports f) fuel) false (cut_end f1) (map i_stmt I1) b1) /\
    in_files 0 (file_ids (cut_end f1)) I1 /\ chain (f_base f) I1 a1 /\
    Forall2 (block_of enc D K (f_exports f) fuel) rest Is /\ (exists a2, chain a1 (concat Is) a2).
Proof. exact link_is_concat. Qed.
Print Assumptions R_link_is_concat.

(* ---- relocation (C09 on whole programs) ------------------------------------------------------------------------
   [at_base b rest] is `.link b` followed by rest.  Class [reloc_ok rest] (Model/AsmT.v): labels, instructions whose
   operand expressions are literals -- except immediates / absolutes, which may be a bare label, and relative operands
   / branch targets, which are a bare label --, .byte/.dword/fills/strings with literals, .word and word lists of
   literals and bare labels, .even/.odd, insert_file; no definitions, repeats, includes, `. =`, .align.
   R_relocation_partial: if the program assembles at b and at b + d (d even, both bases 16-bit), then the two results
   have the bases b and b + d, the same statements at addresses moved by d with the same sizes, every label moved by
   d, chunk by chunk the same number of bytes (images of the same length).  R_relocation_values: under the moved
   table a literal expression has the same value and a bare label the value moved by d, wherever it is evaluated;
   with R_insn_decodes / R_data_exact at the two bases (which give the bytes from exactly these values) that is the
   C09 law: relative operands and branch fields identical, immediates / absolutes / .word of a label moved by d.
   Partial here: this theorem is the layout half.  The byte-level statement "the images are equal except in those
   words, which differ by d mod 2^16" is derived in Props/R_reloc.v (R_relocation_bytes, R_relocation_patch) from this
   one; Run/RRun.judge_reloc additionally judges it in coqc on the model's and on the real images. *)
Theorem R_relocation_partial : forall enc b d rest f f',
  reloc_ok rest = true -> d mod 2 = 0 -> 0 <= b < 65536 -> 0 <= b + d < 65536 ->
  assemble_full enc (at_base b rest) = XOk f -> assemble_full enc (at_base (b + d) rest) = XOk f' ->
  f_base f = b /\ f_base f' = b + d /\
  (exists it0 it0' tl tl', f_items f = it0 :: tl /\ f_items f' = it0' :: tl' /\ i_size it0 = 0 /\ i_size it0' = 0 /\
                           Forall2 (item_shift d) tl tl') /\
  f_syms f' = shiftT d (f_syms f) /\
  Forall2 (fun c c' : list Z => length c = length c') (f_chunks f) (f_chunks f') /\
  length (concat (f_chunks f)) = length (concat (f_chunks f')).
Proof. exact reloc_layout. Qed.
Print Assumptions R_relocation_partial.

Theorem R_relocation_values : forall enc d T c a a' e, re_abs e = true ->
  (closed e = true -> fev enc [] (shiftT d T) c a' e = fev enc [] T c a e) /\
  (is_sym e = true -> fev enc [] (shiftT d T) c a' e =
                      match fev enc [] T c a e with XOk v => XOk (v + d) | r => r end).
Proof. exact reloc_values. Qed.
Print Assumptions R_relocation_values.

(* ---- counts through later labels whose dependence on unknown sizes cancels (Model/AsmRel.v) ----------------
   assemble_rel rewrites such .repeat counts -- and a link base spelled through labels, `.link 1000 + e - s`, where
   the base itself is one more unknown that has to cancel -- to literals (constants over address polynomials, Model/Poly.v) and
   hands the program to assemble.  R_rel_sound_partial: its answer IS an answer of assemble for the rewritten
   program p' -- so every theorem above applies to p' --, p' differs from the program only in the rewritten counts
   (R_rel_shape), and each rewritten count expression evaluates, by the Spec under the final symbol table, to the
   literal that replaced it.  Partial: that the polynomial pre-pass accepts a count exactly when pdpy11's
   LinearPolynomial cancellation does is tied by correspondence only (13colours, specials). *)
Theorem R_rel_sound_partial : forall enc p f, assemble_rel_full enc p = XOk f ->
  exists p' ch, resolve enc p = (p', ch) /\ assemble_full enc p' = XOk f /\
    Forall (fun c => Arith.eval (cenc enc) (sym_of (f_exports f) (f_syms f) (0%nat, None)) 0 (fst c) = Ok (snd c)) ch.
Proof. exact rel_sound. Qed.
Print Assumptions R_rel_sound_partial.

Theorem R_rel_shape : forall enc p p' ch, resolve enc p = (p', ch) -> Forall2 (same_but ch) (cut_end p) p'.
Proof. exact resolve_shape. Qed.
Print Assumptions R_rel_shape.

Theorem R_rel_no_crash : forall enc p, (forall s, assemble_rel enc p <> XCrash s) /\ assemble_rel enc p <> XOutOfFuel.
Proof. exact rel_no_crash. Qed.
Print Assumptions R_rel_no_crash.

(* R_guard_partial: what is NOT proved.  Statements without an announced size (.blkb .blkw .even .odd .align
   .ascii .asciz .rad50 `. = e` insert_file) are laid out with the length of what they emit under the labels and
   definitions known at that point; assemble re-evaluates them with the final table and answers
   Unsupported "size-guard" when a length differs.  That this never happens (monotonicity of the
   demand-driven evaluation in the set of laid-out labels) is not proved; it is counted on every run of the
   correspondence (0 occurrences).  What IS proved is that the guard holds of every result -- which is true by the
   definition of assemble_full's final `if` and says nothing beyond it: *)
Theorem R_guard_partial : forall enc p f, assemble_full enc p = XOk f ->
  forallb size_ok (combine (f_items f) (f_chunks f)) = true.
Proof. exact guard_thm. Qed.
Print Assumptions R_guard_partial.

(* ---- a small real program: labels, a local label, a backward and a forward branch, a forward
   reference in an immediate, .word label, a definition through labels, a repeat whose copies see their
   own `.` -- assembled by the model to the image the implementation produces -------------------------- *)
Definition num (z : Z) : expr := Lit (LNum (z <? 0) SBareOct false false (Z.abs_N z)).
Definition ex_program : program :=
 [ Label "start"; Insn "mov" [AImm (Sym "msg"); AReg (num 0)];
   LocalLabel "1"; Insn "dec" [AReg (num 0)]; Insn "bne" [ARel (Sym "1")];
   Insn "br" [ARel (Sym "done")];
   Repeat (num 2) [Word [Dot]];
   Label "msg"; Word [Sym "start"; Sym "k"];
   Label "done"; Insn "halt" []; Assign "k" (Bin BSub (Sym "done") (Sym "start")) ].

Example R_example :
  assemble bk_enc ex_program =
  XOk (512, [192; 21; 14; 2; 192; 10; 254; 2; 4; 1; 10; 2; 12; 2; 0; 2; 18; 0; 0; 0],
       [(KGlobal 0 "done", 530); (KGlobal 0 "msg", 526); (KLocal 0 1 "1", 516); (KGlobal 0 "start", 512); (KGlobal 0 "k", 18)]).
Proof. vm_compute. reflexivity. Qed.

(* the hypotheses of the theorems are met by it, and the decoder reads the first instruction back *)
Example R_example_decode :
  decode (Rad50.words_of_bytes [192; 21; 14; 2; 192; 10; 254; 2; 4; 1]) 512 = Some ("mov", [SImm 526; SReg 0], 2%nat)
  /\ decode (Rad50.words_of_bytes [254; 2; 4; 1]) 518 = Some ("bne", [STarget 516], 1%nat).
Proof. vm_compute. split; reflexivity. Qed.

(* an included file has its own names: `x` of the program and `x` of the file differ, `y` is exported *)
Example R_example_include :
  assemble bk_enc [Assign "x" (num 1); Include true 1 [Assign "x" (num 2); Label "y"; Extern ["y"]; Byte [Sym "x"]; End; Byte [num 9]];
                   Byte [Sym "x"]; Even; Word [Sym "y"]] =
  XOk (512, [2; 1; 0; 2], [(KGlobal 1 "y", 512); (KGlobal 0 "x", 1); (KGlobal 1 "x", 2)]).
Proof. vm_compute. reflexivity. Qed.

(* the laws at work: a definition moved across a label and an instruction; a repeat unrolled; an End with junk *)
Example R_example_move :
  assemble bk_enc [Label "a"; Assign "k" (Bin BAdd (Sym "b") (num 1)); Word [Sym "k"]; Label "b"; Insn "nop" []] =
  assemble bk_enc [Label "a"; Word [Sym "k"]; Label "b"; Assign "k" (Bin BAdd (Sym "b") (num 1)); Insn "nop" []].
Proof. vm_compute. reflexivity. Qed.

(* ... while a definition that uses `.` takes its value from where it stands *)
Example R_example_dot_def :
  assemble bk_enc [Assign "k" Dot; Insn "nop" []; Word [Sym "k"]] <> assemble bk_enc [Insn "nop" []; Assign "k" Dot; Word [Sym "k"]].
Proof. vm_compute. discriminate. Qed.

Example R_example_unroll :
  assemble bk_enc [Label "s"; Repeat (numlit 3) [Word [Dot]; Byte [num 1]; Even]; Word [Sym "s"]] =
  assemble bk_enc [Label "s"; Word [Dot]; Byte [num 1]; Even; Word [Dot]; Byte [num 1]; Even; Word [Dot]; Byte [num 1]; Even; Word [Sym "s"]]
  /\ forallb (plainf (lnames [Label "s"; Word [Sym "s"]])) [Word [Dot]; Byte [num 1]; Even] = true.
Proof. vm_compute. split; reflexivity. Qed.

(* the shape of 13colours: the count (free - code) / 2 through two later labels; a count that depends on its own
   size is still refused *)
Definition ex_rel : program :=
  [ Insn "mov" [AImm (Sym "free"); AReg (num 2)];
    Repeat (Bin BDiv (Group Paren (Bin BSub (Sym "free") (Sym "code"))) (num 2)) [Insn "mov" [AAutoInc (num 1); AAutoInc (num 2)]];
    Label "code"; Insn "mov" [AReg (num 5); ARegDef (num 0)]; Insn "clr" [AReg (num 1)];
    Label "free"; Word [Sym "code"] ].
Example R_example_rel :
  assemble bk_enc ex_rel = XUnsup "label-not-laid-out-yet" /\
  assemble_rel bk_enc ex_rel =
    XOk (512, [194; 21; 12; 2; 82; 20; 82; 20; 72; 17; 1; 10; 8; 2], [(KGlobal 0 "free", 524); (KGlobal 0 "code", 520)]) /\
  assemble_rel bk_enc [Label "s"; Repeat (Bin BSub (Sym "e") (Sym "s")) [Insn "nop" []]; Label "e"] = XUnsup "label-not-laid-out-yet".
Proof. vm_compute. repeat split; reflexivity. Qed.

Example R_example_rel_base :
  assemble_rel bk_enc [Link (Bin BSub (Bin BAdd (num 512) (Sym "e")) (Sym "s")); Label "s"; Insn "nop" []; Insn "nop" []; Label "e"; Word [Sym "e"]] =
  XOk (516, [160; 0; 160; 0; 8; 2], [(KGlobal 0 "e", 520); (KGlobal 0 "s", 516)]) /\
  assemble_rel bk_enc [Link (Sym "e"); Label "e"] = XUnsup "label-not-laid-out-yet".
Proof. vm_compute. split; reflexivity. Qed.

Example R_example_supported :
  supported ex_program = true /\
  supported [Assign "n" (num 3); Blkb (Sym "n"); Repeat (Sym "n") [Word [Dot; Sym "later"]]; Label "later"] = true /\
  supported [Blkb (Sym "l"); Label "l"] = false /\ supported [Repeat (num 2) [Link (num 512)]] = false.
Proof. vm_compute. repeat split; reflexivity. Qed.

(* the stream's view of the laws: positions, hypotheses, the pair compared *)
Example R_example_law_pair :
  let p := [Label "a"; Assign "k" (Bin BAdd (Sym "b") (num 1)); Word [Sym "k"]; Label "b"; Repeat (num 2) [Insn "nop" []]; Insert [1; 2]] in
  law_hyps (LMove 1 3) p = true /\ law_hyps (LMove 1 0) p = true /\ law_hyps (LUnroll 4) p = true /\ law_hyps (LInsert 5) p = true /\
  law_pair (LMove 1 3) p = Some (p, [Label "a"; Word [Sym "k"]; Label "b"; Assign "k" (Bin BAdd (Sym "b") (num 1)); Repeat (num 2) [Insn "nop" []]; Insert [1; 2]]) /\
  law_hyps (LMove 2 0) p = false.
Proof. vm_compute. repeat split; reflexivity. Qed.

(* two linked files: `x` is private to each, `y` is exported by the second; the second file fixes the shared base *)
Example R_example_link :
  assemble bk_enc (link [Assign "x" (num 1); Byte [Sym "x"]; Even; Word [Sym "y"]; End; Byte [num 9]]
                        [(1%nat, [Link (num 1024); Assign "x" (num 2); Label "y"; Extern ["y"]; Byte [Sym "x"]])]) =
  XOk (1024, [1; 0; 4; 4; 2], [(KGlobal 1 "y", 1028); (KGlobal 0 "x", 1); (KGlobal 1 "x", 2)]).
Proof. vm_compute. reflexivity. Qed.

(* a program of the class at two bases: the opcode words, the relative operand and the branch are the same; the
   immediate, the absolute and the .word of a label moved by 512 *)
Definition ex_reloc : program :=
  [ Label "s"; Insn "mov" [AImm (Sym "m"); AReg (num 0)]; Insn "mov" [ARel (Sym "m"); AAbs (Sym "m")];
    LocalLabel "1"; Insn "dec" [AReg (num 0)]; Insn "bne" [ARel (Sym "1")]; Label "m"; Word [Sym "s"; num 7] ].
Example R_example_reloc :
  reloc_ok ex_reloc = true /\
  assemble bk_enc (at_base 512 ex_reloc) =
    XOk (512, [192; 21; 14; 2; 223; 29; 6; 0; 14; 2; 192; 10; 254; 2; 0; 2; 7; 0],
         [(KGlobal 0 "m", 526); (KLocal 0 1 "1", 522); (KGlobal 0 "s", 512)]) /\
  assemble bk_enc (at_base 1024 ex_reloc) =
    XOk (1024, [192; 21; 14; 4; 223; 29; 6; 0; 14; 4; 192; 10; 254; 2; 0; 4; 7; 0],
         [(KGlobal 0 "m", 1038); (KLocal 0 1 "1", 1034); (KGlobal 0 "s", 1024)]).
Proof. vm_compute. repeat split; reflexivity. Qed.

(* refusals are results, not crashes: a cycle, a branch out of reach, a count through a later label *)
Example R_example_refusals :
  assemble bk_enc [Assign "a" (Sym "b"); Assign "b" (Sym "a"); Word [Sym "a"]] = XErr ["recursive-definition"] /\
  assemble bk_enc [Insn "br" [ARel (Sym "far")]; Blkb (num 256); Label "far"] = XErr ["branch-out-of-bounds"] /\
  assemble bk_enc [Blkb (Sym "l"); Label "l"] = XUnsup "label-not-laid-out-yet".
Proof. vm_compute. repeat split; reflexivity. Qed.
