(* R_listing -- C19's last clause on the reference assembler: "every listed label address is the address at which
   the byte following that label lies in the image", no longer against C02's invariant as a hypothesis but for every
   program the whole-program model Model/Asm.v assembles.  Only statements, each closed by [exact] of a lemma from
   Proofs/AsmListingP.v, then Print Assumptions.

   Model/AsmListing.v: asm_listing fname f = ListingM.generate_listing applied to the final symbol table f_syms f
   (adapter entries_of / pm_of; fname: file id -> file name).  rows_under file bs: the (value, name) rows of the
   listing under that file name.  asm_placed fname f: every ordinary label of the placed program -- a `Label`
   statement at the top level of the program file, of an included file or of a further linked file; by R_layout's
   [flat] the placed statements are exactly the program's statements in order -- with the number of image bytes
   placed before it, counted on the chunks.  A `name = expr` constant is listed (R_listing_complete_sorted) but is
   not an address and is not in asm_placed. *)
From Coq Require Import ZArith List String Ascii Bool NArith Sorted Permutation.
From Verif Require Import Base.Res Spec.PDP11 Spec.Arith Spec.Listing Model.Directives Model.Asm Model.AsmListing Proofs.AsmListingP.
From Verif Require Model.ListingM.
Import ListNotations.
Notation length := Datatypes.length.
Notation concat := List.concat.
Open Scope string_scope.
Open Scope list_scope.
Open Scope Z_scope.

(* FULL.  The listing exists, is a listing of the table's ordinary symbols in the sense of Spec/Listing.v, and
   Spec.Listing.points_into_image holds of it outright for ALL ordinary labels (also those of included / linked
   files; inside a .repeat a label is an error of the assembly, so there are none).  Label by label (statement
   number k of the placed program, a Label n): its row (address, n) stands under its file's name; the address is
   base + the number of image bytes before the statement; the image from offset (address - base) on is exactly the
   concatenation of the bytes of the statements placed after the label -- nothing skipped, nothing inserted -- so
   if any later statement emits a byte, the first such byte is the image byte at that offset. *)
Theorem R_listing_label_is_image_address : forall enc fname p f, assemble_full enc p = XOk f ->
  exists text bs,
    asm_listing fname f = Ok text /\ renders bs text /\ listing_of (ordinary_of fname (f_syms f)) bs /\
    points_into_image (f_base f) bs (asm_placed fname f) /\
    forall k it n, nth_error (f_items f) k = Some it -> i_stmt it = Label n ->
      In (i_addr it, n) (rows_under (fname (fst (i_scope it))) bs) /\
      In (mkSym (fname (fst (i_scope it))) n (i_addr it), length (concat (firstn k (f_chunks f)))) (asm_placed fname f) /\
      klookup (KGlobal (fst (i_scope it)) n) (f_syms f) = Some (i_addr it) /\
      f_base f <= i_addr it /\
      i_addr it = f_base f + zlen (concat (firstn k (f_chunks f))) /\
      skipn (Z.to_nat (i_addr it - f_base f)) (concat (f_chunks f)) = concat (skipn (S k) (f_chunks f)) /\
      (forall c r, concat (skipn (S k) (f_chunks f)) = c :: r ->
                   nth_error (concat (f_chunks f)) (Z.to_nat (i_addr it - f_base f)) = Some c).
Proof. exact listing_label_is_image_address. Qed.
Print Assumptions R_listing_label_is_image_address.

(* the same for every placed statement, not only labels (strengthens R_layout's "exists tail"): the image from a
   statement's address on is its own bytes followed by the bytes of everything placed after it *)
Theorem R_listing_image_after : forall enc p f, assemble_full enc p = XOk f ->
  forall k it bs, nth_error (f_items f) k = Some it -> nth_error (f_chunks f) k = Some bs ->
  i_addr it = f_base f + zlen (concat (firstn k (f_chunks f))) /\
  skipn (Z.to_nat (i_addr it - f_base f)) (concat (f_chunks f)) = bs ++ concat (skipn (S k) (f_chunks f)).
Proof. exact image_after_thm. Qed.
Print Assumptions R_listing_image_after.

(* FULL.  The rows under a file name are exactly the ordinary symbols (labels and constants: the KGlobal keys) of the
   files of that name, each once (a permutation: same multiset), ordered by value then name; a file name heads one
   block, and exactly the names of files that own a symbol head one. *)
Theorem R_listing_complete_sorted : forall enc fname p f, assemble_full enc p = XOk f ->
  exists text bs,
    asm_listing fname f = Ok text /\ renders bs text /\
    NoDup (map fst bs) /\
    (forall file, In file (map fst bs) <-> exists g n v, In (KGlobal g n, v) (f_syms f) /\ fname g = file) /\
    Permutation (flat_map block_syms bs) (ordinary_of fname (f_syms f)) /\
    forall file, Permutation (rows_under file bs) (rows_owed fname file (f_syms f)) /\ Sorted line_le (rows_under file bs).
Proof. exact listing_complete_sorted. Qed.
Print Assumptions R_listing_complete_sorted.

(* the adapter meets ListingM's precondition for every table, and its ordinary symbols are the KGlobal keys *)
Theorem R_listing_adapter : forall fname T,
  ListingM.prefixes_known (pm_of fname T) (entries_of T) /\
  ListingM.ordinary (pm_of fname T) (entries_of T) = ordinary_of fname T.
Proof. exact adapter_ok. Qed.
Print Assumptions R_listing_adapter.

(* ---- a program with three labels; data and an instruction between the first and the last, an included file with a
   label of its own in between, a constant *)
Definition lnum (z : Z) : expr := Lit (LNum (z <? 0) SBareOct false false (Z.abs_N z)).
Definition ex_fname (k : nat) : string := match k with O => "main.mac" | _ => "inc.mac" end.
Definition ex_listing_prog : program :=
  [ Label "start"; Word [lnum 7; Sym "k"]; Insn "mov" [AImm (Sym "end"); AReg (lnum 0)];
    Include true 1 [Label "sub"; Byte [lnum 9]; Even];
    Label "end"; Insn "halt" []; Assign "k" (lnum 3) ].

Example R_listing_example :
  exists f, assemble_full bk_enc ex_listing_prog = XOk f /\
    f_base f = 512 /\
    concat (f_chunks f) = [7; 0; 3; 0; 192; 21; 10; 2; 9; 0; 0; 0] /\
    asm_listing ex_fname f =
      Ok ("main.mac" ++ nl ++ "000003 k" ++ nl ++ "001000 start" ++ nl ++ "001012 end" ++ nl ++ nl ++
          "inc.mac" ++ nl ++ "001010 sub" ++ nl ++ nl)%string /\
    asm_placed ex_fname f =
      [(mkSym "main.mac" "start" 512, 0%nat); (mkSym "inc.mac" "sub" 520, 8%nat); (mkSym "main.mac" "end" 522, 10%nat)] /\
    (* the image at the listed addresses: start -> the .word 7, sub -> the .byte 9, end -> halt *)
    skipn (Z.to_nat (512 - 512)) (concat (f_chunks f)) = [7; 0; 3; 0; 192; 21; 10; 2; 9; 0; 0; 0] /\
    skipn (Z.to_nat (520 - 512)) (concat (f_chunks f)) = [9; 0; 0; 0] /\
    skipn (Z.to_nat (522 - 512)) (concat (f_chunks f)) = [0; 0].
Proof. eexists. split; [vm_compute; reflexivity|]. vm_compute. repeat split; reflexivity. Qed.

(* FULL, the converse direction: EVERY row of the listing is either an ordinary label of a file of that name -- a placed
   Label statement, whose listed value is the address where the bytes of the statements placed after it begin in the
   image -- or a `name = expr` constant of such a file (which is a value, not an address).  Proofs/AsmListingP.v:
   table_sources, by an induction over the layout pass (repeat copies and included / linked files included). *)
Theorem R_listing_rows_sources : forall enc fname p f, assemble_full enc p = XOk f ->
  exists text bs,
    asm_listing fname f = Ok text /\ renders bs text /\
    forall file v n, In (v, n) (rows_under file bs) ->
      exists g, fname g = file /\
        ((exists k it, nth_error (f_items f) k = Some it /\ i_stmt it = Label n /\ fst (i_scope it) = g /\ i_addr it = v /\
                       f_base f <= v /\
                       skipn (Z.to_nat (v - f_base f)) (concat (f_chunks f)) = concat (skipn (S k) (f_chunks f))) \/
         (exists d, In d (collect_defs 0 0 (cut_end p)) /\ d_file d = g /\ d_name d = n)).
Proof. exact listing_rows_sources. Qed.
Print Assumptions R_listing_rows_sources.
