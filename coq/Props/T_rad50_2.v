(* Props/T_rad50_2.v -- the WHOLE body of the '.rad50' directive translated from pdpy11/metacommands.py def rad50
   (Gen/GenPure4Rad50.v, regenerated on every run by tools/gens/gen_pure4.py: the chunk loop with get_as_int and the
   range check, the character loop with its try/except, the padding `while`, the grouping loop with struct.pack) EQUALS
   the hand model Model/Rad50.v rad50 over the generated TABLE -- the function the C15 theorems are about -- for all
   operands, including the reported-error and exception outcomes.  Only statements, each closed by [exact] of a lemma
   of Proofs/TRad50_2P.v, then Print Assumptions.

   [to_chunk4]: Str s -> Quoted4 s, Code n -> Angle4 n.  [as_res4]: Ok (reports, bytes) -> the bytes if no report of
   kind "error", else Err of their identifiers in order; Err / Crash / OutOfFuel stay what they are. *)
From Coq Require Import String Ascii List ZArith NArith Bool.
From Verif Require Import Base.Res Base.Bytes Gen.GenRadix50 Gen.GenPure4 Gen.GenPure4Rad50 Model.Rad50 Proofs.TRad50_2P.
Import ListNotations.
Open Scope list_scope.
Open Scope Z_scope.

Theorem T_rad50_body_is_model : forall cs, as_res4 (g_rad50_body (map to_chunk4 cs)) = rad50 rad50_table cs.
Proof. exact rad50_body_is_model. Qed.
Print Assumptions T_rad50_body_is_model.

(* the two loops, in accumulator form: reports and codes appended in order, never an exception *)
Theorem T_rad50_chunk_loop : forall cs rs ks,
  g_rad50_for_chunk rs ks (map to_chunk4 cs)
  = Ok (rs ++ E (snd (chunk_codes rad50_table cs)), ks ++ fst (chunk_codes rad50_table cs)).
Proof. exact for_chunk_eq. Qed.
Print Assumptions T_rad50_chunk_loop.

(* the padding `while` ends (fuel is enough) with 0, 1 or 2 zeros appended *)
Theorem T_rad50_pad : forall l, exists p, py4_while_pad l 3 0 = Ok (l ++ p) /\ fits (Z.of_nat (length l)) p.
Proof. exact pad_eq. Qed.
Print Assumptions T_rad50_pad.

Example T_ex_rad50_2 :
  g_rad50_body [Quoted4 [97; 66]%N; Angle4 39; Quoted4 [99; 36]%N] = Ok ([], le16 (1 * 1600 + 2 * 40 + 39) ++ le16 (3 * 1600 + 27 * 40 + 0))
  /\ g_rad50_body [Angle4 40; Quoted4 [33; 305]%N; Angle4 (-1)]
     = Ok ([("error", "value-out-of-bounds"); ("error", "invalid-character"); ("error", "invalid-character"); ("error", "value-out-of-bounds")]%string, [0; 0; 0; 0])
  /\ g_rad50_body [] = Ok ([], []).
Proof. repeat split; reflexivity. Qed.
