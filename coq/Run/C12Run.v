(* evaluation of C12 cases.
   A case carries the abstract programme (Model/LinkBase statements; intermediate symbols inlined),
   what the property expects of it stated WITHOUT the model (Spec/LinkRef integer arithmetic on
   label offsets known by construction), and the outcome of the real assembler.
   bit 0: Model.LinkBase.run differs from the observed outcome.
   bit 1: the observed outcome contradicts the expectation.
   bit 2: the expectation itself is inconsistent (a harness bug, never a verdict on the code). *)
From Coq Require Import String List ZArith Bool.
From Verif Require Import Base.Res Base.Bytes Spec.LinkRef Model.Poly Model.LinkBase Run.Show.
Import ListNotations.
Open Scope Z_scope.

Inductive observed := ObsOk (b : Z) (bs : list Z) | ObsFail (ids : list string) | ObsOther.

Inductive expect :=
| ENone
| ESolved (offs : list Z) (e : lexpr) (bytes : list Z)
| ESelf (offs : list Z) (e : lexpr)
| EConflict
| EDot (b : Z) (pre : list Z) (X : Z) (post : list Z)
| EDefault (bytes : list Z).

Definition has (id : string) (o : observed) : bool :=
  match o with ObsFail ids => existsb (String.eqb id) ids | _ => false end.

Definition corr (p : list stmt) (o : observed) : bool :=
  match run p, o with
  | Ok (b, img), ObsOk b' img' => (b =? b') && list_eqb Z.eqb img img'
  | Err ids, ObsFail ids' => forallb (fun i => existsb (String.eqb i) ids') ids
  | _, _ => false
  end.

Definition at_ (b : Z) (offs : list Z) : list Z := map (fun o => b + o) offs.

Definition res_eqb (a b : res Z) : bool :=
  match a, b with
  | Ok x, Ok y => x =? y
  | Err i, Err j => list_eqb String.eqb i j
  | _, _ => false
  end.

(* (expectation consistent, observed outcome satisfies it) *)
Definition prop (ex : expect) (o : observed) : bool * bool :=
  match ex with
  | ENone => (true, true)
  | ESolved offs e bytes =>
      let v0 := zeval (at_ 0 offs) e in
      let same := res_eqb v0 (zeval (at_ 4094 offs) e) && res_eqb v0 (zeval (at_ 65535 offs) e) in
      (same,
       match v0 with
       | Ok v => if fits16 v
                 then match o with
                      | ObsOk b bs => (b =? v mod 65536) && base_is_value offs e b && list_eqb Z.eqb bs bytes
                      | _ => false end
                 else has "value-out-of-bounds" o
       | Err ids => forallb (fun i => has i o) ids
       | _ => false
       end)
  | ESelf offs e =>
      let v0 := zeval (at_ 0 offs) e in
      (negb (res_eqb v0 (zeval (at_ 2 offs) e) && res_eqb v0 (zeval (at_ 512 offs) e) && res_eqb v0 (zeval (at_ 4094 offs) e)),
       has "recursive-definition" o)
  | EConflict => (true, has "address-conflict" o)
  | EDot b pre X post =>
      ((0 <=? b) && (b <? 65536) && (0 <=? X) && (X <? 65536),
       let here := b + Z.of_nat (length pre) in
       if here <=? X
       then match o with
            | ObsOk b' bs => (b' =? b) && list_eqb Z.eqb bs (pre ++ zeros (Z.to_nat (X - here)) ++ post)
            | _ => false end
       else has "value-out-of-bounds" o)
  | EDefault bytes =>
      (true, match o with ObsOk b bs => (b =? 512) && list_eqb Z.eqb bs bytes | _ => false end)
  end.

Definition case := (list stmt * expect * observed)%type.
Definition judge (c : case) : N :=
  let '(p, ex, o) := c in
  let '(consistent, holds) := prop ex o in
  (code_of (corr p o) holds + (if consistent then 0 else 4))%N.
