(* judges of tools/t_check.py for Gen/GenPureRad50.v; see Run/TRun.v *)
From Coq Require Import String List ZArith NArith Bool.
From Verif Require Import Base.Res Base.Bytes Gen.GenPure Gen.GenPureRad50 Run.Show Run.TRun.
Import ListNotations.
Open Scope Z_scope.

Definition judge_pack_to_int (c : list N * res Z) : N :=
  let '(s, impl) := c in code (res_eqb Z.eqb (pack_to_int s) impl).

Definition judge_encode_char (c : N * res Z) : N :=
  let '(ch, impl) := c in code (res_eqb Z.eqb (encode_char ch) impl).

(* (a, b, c, the two bytes '.rad50 <a><b><c>' emitted) *)
Definition judge_rad50_word (c : Z * Z * Z * res (list Z)) : N :=
  let '(a, b, c', impl) := c in code (res_eqb (list_eqb Z.eqb) (pack_H (rad50_word a b c')) impl).
