(* judges of tools/t_check4.py for Gen/GenPure4Rad50.v (regenerated from pdpy11/metacommands.py on every run): the
   translated body of rad50 evaluated on the chunk lists the real metacommands rad50 was driven with directly.
   0 = the generated code gives exactly what the implementation gave (reports in order as (kind, identifier) and the
   bytes, or some Python exception), 1 otherwise.  Imports Gen / Base / Run only. *)
From Coq Require Import String Ascii List ZArith NArith Bool.
From Verif Require Import Base.Res Base.Bytes Gen.GenPure4 Gen.GenPure4Rad50 Run.Show Run.TRun.
Import ListNotations.
Open Scope Z_scope.

Definition rep_pair_eqb4 (a b : string * string) : bool := String.eqb (fst a) (fst b) && String.eqb (snd a) (snd b).
Definition judge_rad50_body (c : list chunk4 * res (list (string * string) * list Z)) : N :=
  let '(cs, impl) := c in
  code (res_eqb (fun a b => list_eqb rep_pair_eqb4 (fst a) (fst b) && list_eqb Z.eqb (snd a) (snd b)) (g_rad50_body cs) impl).
