(* Judge for tools/pa_corr.py: the Gallina pipeline  text -> Model/StmtParse.parse_file -> Model/ParseAsm.to_asm ->
   Model/Asm(.Rel) assemble  against (a) tools/ast2coq.py's conversion of pdpy11's own parse tree and (b) the bytes
   pdpy11 produced.
     bit 0   to_asm differs from ast2coq (other program, or only one of them inside the subset)
     bit 1   to_asm answered Unsupported (then nothing else is judged; bits 8.. = 0)
     bits 8+ Run/RRun.judge of (to_asm's program, what the implementation did), times 256: its bit 0 is
             "model bytes <> implementation bytes", bit 1 "implementation contradicts the Spec", bit 2 Asm: Unsupported ... *)
From Coq Require Import ZArith List String Ascii Bool NArith.
From Verif Require Import Base.Res Spec.Arith Model.Asm Model.ParseAsm Run.RRun.
Import ListNotations.
Open Scope string_scope.
Open Scope list_scope.

Definition numstyle_code (s : numstyle) : N :=
  match s with SBareOct => 0 | SDecDot => 1 | S0x => 2 | S0o => 3 | S0b => 4 | SCX => 5 | SCO => 6 | SCB => 7 | SCD => 8 end%N.
Definition unop_code (u : unop) : N := match u with UPlus => 0 | UNeg => 1 | UInv => 2 | UCompl => 3 end%N.
Definition binop_code (o : binop) : N :=
  match o with BMul => 0 | BDiv => 1 | BMod => 2 | BAdd => 3 | BSub => 4 | BShl => 5 | BShr => 6 | BLsh => 7
             | BAnd => 8 | BXor => 9 | BOr => 10 | BBang => 11 end%N.
Fixpoint leqb {A} (f : A -> A -> bool) (a b : list A) : bool :=
  match a, b with [], [] => true | x :: a', y :: b' => f x y && leqb f a' b' | _, _ => false end.
Definition literal_eqb (a b : literal) : bool :=
  match a, b with
  | LNum n1 s1 p1 d1 v1, LNum n2 s2 p2 d2 v2 =>
      Bool.eqb n1 n2 && N.eqb (numstyle_code s1) (numstyle_code s2) && Bool.eqb p1 p2 && Bool.eqb d1 d2 && N.eqb v1 v2
  | LBad89 n1 d1, LBad89 n2 d2 => Bool.eqb n1 n2 && leqb N.eqb d1 d2
  | LChar1 x, LChar1 y => N.eqb x y
  | LChar2 x1 x2, LChar2 y1 y2 => N.eqb x1 y1 && N.eqb x2 y2
  | LRad50 x, LRad50 y => leqb N.eqb x y
  | _, _ => false
  end.
Definition bracket_eqb (a b : bracket) : bool :=
  match a, b with Paren, Paren | Angle, Angle => true | Caret x, Caret y => Ascii.eqb x y | _, _ => false end.
Fixpoint expr_eqb (a b : expr) : bool :=
  match a, b with
  | Lit x, Lit y => literal_eqb x y
  | Sym x, Sym y => String.eqb x y
  | Dot, Dot => true
  | Un u x, Un v y => N.eqb (unop_code u) (unop_code v) && expr_eqb x y
  | Bin o x1 x2, Bin p y1 y2 => N.eqb (binop_code o) (binop_code p) && expr_eqb x1 y1 && expr_eqb x2 y2
  | Group g x, Group h y => bracket_eqb g h && expr_eqb x y
  | _, _ => false
  end.
Definition aoperand_eqb (a b : aoperand) : bool :=
  match a, b with
  | AReg x, AReg y | ARegDef x, ARegDef y | AAutoInc x, AAutoInc y | AAutoIncDef x, AAutoIncDef y
  | AAutoDec x, AAutoDec y | AAutoDecDef x, AAutoDecDef y | AImm x, AImm y | AAbs x, AAbs y
  | ARel x, ARel y | ARelDef x, ARelDef y => expr_eqb x y
  | AIndex x r, AIndex y s | AIndexDef x r, AIndexDef y s => expr_eqb x y && expr_eqb r s
  | AAcc x, AAcc y => Z.eqb x y
  | _, _ => false
  end.
Definition achunk_eqb (a b : achunk) : bool :=
  match a, b with CStr x, CStr y => leqb N.eqb x y | CCode x, CCode y => expr_eqb x y | _, _ => false end.
Fixpoint stmt_eqb (a b : stmt) : bool :=
  let fix go (x y : list stmt) : bool :=
    match x, y with [], [] => true | s :: x', t :: y' => stmt_eqb s t && go x' y' | _, _ => false end in
  match a, b with
  | Label x, Label y | LocalLabel x, LocalLabel y => String.eqb x y
  | Assign x e, Assign y f => String.eqb x y && expr_eqb e f
  | Insn m o, Insn n p => String.eqb m n && leqb aoperand_eqb o p
  | Byte x, Byte y | Word x, Word y | Dword x, Dword y | WordList x, WordList y => leqb expr_eqb x y
  | Blkb x, Blkb y | Blkw x, Blkw y | Align x, Align y | Link x, Link y | Skip x, Skip y => expr_eqb x y
  | Even, Even | Odd, Odd | NoOp, NoOp | End, End | ExternAll, ExternAll => true
  | Ascii z x, Ascii w y => Bool.eqb z w && leqb achunk_eqb x y
  | Rad50 x, Rad50 y => leqb achunk_eqb x y
  | Repeat c x, Repeat d y => expr_eqb c d && go x y
  | Insert x, Insert y => leqb Z.eqb x y
  | Include o f x, Include p g y => Bool.eqb o p && Nat.eqb f g && go x y
  | Extern x, Extern y => leqb String.eqb x y
  | _, _ => false
  end.
Definition program_eqb (a b : program) : bool := leqb stmt_eqb a b.

(* one case: file table, name and text of the main file, ast2coq's term (None = outside its subset), what the
   implementation did *)
Definition pa_case : Type := (list fsentry * list N * list N * option program * obs)%type.

Definition judge_pa (c : pa_case) : N :=
  let '(fs, name, text, expected, o) := c in
  match to_asm fs name text, expected with
  | CUnsup _, None => 2%N
  | CUnsup _, Some _ => 3%N
  | COk _, None => 1%N
  | COk p, Some q => ((if program_eqb p q then 0 else 1) + 256 * judge (p, o))%N
  end.

(* for the investigation of a disagreement *)
Definition show_pa (c : pa_case) : conv program := let '(fs, name, text, _, _) := c in to_asm fs name text.

(* spellings for the generated case files (which are read in Z scope) *)
Definition zs (l : list Z) : list N := map Z.to_N l.
Definition fs_ (from path resolved : list Z) (text : option (list Z)) (bytes : option (list Z)) : fsentry :=
  mkFs (zs from) (zs path) (zs resolved) (option_map zs text) bytes.
