(* Run/TRun.v + Run/TRun*.v -- judges of tools/t_check.py: the functions of Gen/GenPure*.v (regenerated from the Python
   source on every run) evaluated on the inputs the real Python functions were driven with.
   Every judge returns 0 when the generated function gives exactly what the implementation gave,
   1 otherwise (bit 0 = Gen differs from the implementation: the translator or its reading of Python is
   wrong, or the driver is).  Crash sites are compared as "some Python exception", not by text.
   Imports Gen / Base / Run.Show only. *)
From Coq Require Import String List ZArith NArith Bool.
From Verif Require Import Base.Res Base.Bytes Gen.GenPure Run.Show.
Import ListNotations.
Open Scope Z_scope.

Definition res_eqb {A} (eqb : A -> A -> bool) (a b : res A) : bool :=
  match a, b with
  | Ok x, Ok y => eqb x y
  | Err e, Err f => list_eqb String.eqb e f
  | Crash _, Crash _ => true
  | OutOfFuel, OutOfFuel => true
  | _, _ => false
  end.

Definition code (same : bool) : N := if same then 0%N else 1%N.

(* a value together with the identifiers reported *)
Definition rep_eqb {A} (eqb : A -> A -> bool) (a b : A * list string) : bool :=
  eqb (fst a) (fst b) && list_eqb String.eqb (snd a) (snd b).

