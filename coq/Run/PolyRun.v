(* Correspondence of Model/Poly.v with pdpy11.deferred.LinearPolynomial / Promise.
   The harness drives the real objects with a sequence of operations on a small register file and
   reports, for each register, the final `coeffs` dict (in dict order) and `constant_term`, and for
   each `wait` the value it returned (None when it raised NotReadyError inside try_compute).
   This file replays the same sequence on the model.  Imports only Model/Base. *)
From Coq Require Import List ZArith Bool.
From Verif Require Import Model.Poly Run.Show.
Import ListNotations.
Open Scope Z_scope.

Inductive pop :=
| PConst (r : nat) (k : Z)          (* r := LinearPolynomial[int]() + k *)
| PVar (r : nat) (x : var)          (* r := Px + 0          (BaseDeferred.__add__) *)
| PAdd (r a b : nat)                (* r := ra + rb *)
| PAddC (r a : nat) (k : Z)         (* r := ra + k   /  k + ra *)
| PAddV (r a : nat) (x : var)       (* r := ra + Px  /  Px + ra   (get_current_best_estimate of the promise) *)
| PNeg (r a : nat)
| PSub (r a b : nat)
| PSubV (r a : nat) (x : var)       (* r := ra - Px *)
| PRSubC (r a : nat) (k : Z)        (* r := k - ra *)
| PScale (r a : nat) (k : Z)        (* r := ra * k   /  k * ra *)
| PSettleC (x : var) (k : Z)        (* Px.settle(k) *)
| PSettleP (x : var) (a : nat)      (* Px.settle(copy of ra) *)
| PWait (spec : bool) (a : nat).    (* ra.wait(), inside `with try_compute` when spec *)

Record mstate := MState { regs : list poly; settled : list (var * poly); rets : list (option poly) }.

Definition getr (st : mstate) (a : nat) : poly := nth a (regs st) (pconst 0).
Fixpoint setnth {A} (l : list A) (n : nat) (v : A) : list A :=
  match l, n with
  | [], _ => []
  | _ :: r, O => v :: r
  | x :: r, S n' => x :: setnth r n' v
  end.
Definition setr (st : mstate) (r : nat) (p : poly) : mstate := MState (setnth (regs st) r p) (settled st) (rets st).

Fixpoint lookup (s : list (var * poly)) (x : var) : option poly :=
  match s with
  | [] => None
  | (k, v) :: r => if k =? x then Some v else lookup r x
  end.

(* what `rhs.get_current_best_estimate()` gives for a promise, as a polynomial *)
Definition estimate (st : mstate) (x : var) : poly :=
  match lookup (settled st) x with Some q => q | None => pvar x end.

(* the value returned by LinearPolynomial._wait when every variable was ready:
   sum(key.wait() * value for key, value in self.coeffs.items()) + self.constant_term *)
Definition wait_ret (sigma : var -> option poly) (p : poly) : option poly :=
  if all_ready sigma p then
    Some (addc (fold_left (fun acc kv => match sigma (fst kv) with
                                        | Some q => add acc (scale (snd kv) q)
                                        | None => acc end) (coeffs p) (pconst 0)) (const p))
  else None.

Definition mstep (st : mstate) (o : pop) : mstate :=
  match o with
  | PConst r k => setr st r (addc (mk [] 0) k)
  | PVar r x => setr st r (addc (add (mk [] 0) (estimate st x)) 0)
  | PAdd r a b => setr st r (add (getr st a) (getr st b))
  | PAddC r a k => setr st r (addc (getr st a) k)
  | PAddV r a x => setr st r (add (getr st a) (estimate st x))
  | PNeg r a => setr st r (neg (getr st a))
  | PSub r a b => setr st r (sub (getr st a) (getr st b))
  | PSubV r a x =>
      (* -Px is LinearPolynomial({Px: -1}) whatever Px is settled to; the sum then holds the promise itself *)
      setr st r (add (getr st a) (mk [(x, -1)] 0))
  | PRSubC r a k => setr st r (addc (neg (getr st a)) k)
  | PScale r a k => setr st r (scale k (getr st a))
  | PSettleC x k => MState (regs st) ((x, pconst k) :: settled st) (rets st)
  | PSettleP x a => MState (regs st) ((x, getr st a) :: settled st) (rets st)
  | PWait spec a =>
      let sigma := lookup (settled st) in
      let allr := all_ready sigma (getr st a) in
      let p' := wait_mutation spec sigma (getr st a) in
      let st' := setr st a p' in
      MState (regs st') (settled st') (rets st' ++ [if spec && negb allr then None else wait_ret sigma p'])
  end.

Definition run_ops (nregs : nat) (ops : list pop) : mstate :=
  fold_left mstep ops (MState (repeat (pconst 0) nregs) [] []).

Definition obs_poly := (list (var * Z) * Z)%type.
Definition poly_obs_eqb (p : poly) (o : obs_poly) : bool := poly_eqb p (Poly (fst o) (snd o)).
Definition ret_eqb (p : option poly) (o : option obs_poly) : bool :=
  match p, o with
  | None, None => true
  | Some p, Some o => poly_obs_eqb p o
  | _, _ => false
  end.

Fixpoint all2 {A B} (f : A -> B -> bool) (a : list A) (b : list B) : bool :=
  match a, b with
  | [], [] => true
  | x :: xs, y :: ys => f x y && all2 f xs ys
  | _, _ => false
  end.

(* case: (number of registers, operations, observed registers, observed wait results) *)
Definition poly_case := (nat * list pop * list obs_poly * list (option obs_poly))%type.
Definition judge_poly (c : poly_case) : N :=
  let '(n, ops, oregs, orets) := c in
  let st := run_ops n ops in
  code_of (all2 poly_obs_eqb (regs st) oregs && all2 ret_eqb (rets st) orets) true.
