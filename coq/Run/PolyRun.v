(* Correspondence of Model/Poly.v with pdpy11.deferred.LinearPolynomial / Promise.
   The harness drives the real objects with a sequence of operations on a small register file and
   reports, for each register, the final `coeffs` dict (in dict order) and `constant_term`, and for
   each `wait` the value it returned (None when it raised NotReadyError inside try_compute).
   This file replays the same sequence on the model.  Imports only Model/Base. *)
From Coq Require Import List ZArith Bool.
From Verif Require Import Model.Poly Run.Show.
Import ListNotations.
Open Scope Z_scope.

Inductive pop :=
| PConst (r : nat) (k : Z)          (* r := LinearPolynomial[int]() + k *)
| PVar (r : nat) (x : var)          (* r := Vx + 0          (BaseDeferred.__add__) *)
| PAdd (r a b : nat)                (* r := ra + rb *)
| PAddC (r a : nat) (k : Z)         (* r := ra + k   /  k + ra *)
| PAddV (r a : nat) (x : var)       (* r := ra + Vx  /  Vx + ra   (get_current_best_estimate of the variable) *)
| PNeg (r a : nat)
| PSub (r a b : nat)
| PSubV (r a : nat) (x : var)       (* r := ra - Vx *)
| PRSubC (r a : nat) (k : Z)        (* r := k - ra *)
| PScale (r a : nat) (k : Z)        (* r := ra * k   /  k * ra *)
| PSettleC (x : var) (k : Z)        (* Px.settle(k) *)
| PSettleP (x : var) (a : nat)      (* Px.settle(copy of ra) *)
| PSettleV (x y : var)              (* Px.settle(Vy): a value defined as another value *)
| PLatentC (x : var) (k : Z)        (* the late Deferred x will yield k when waited for at depth 0 *)
| PLatentP (x : var) (a : nat)      (* ... a copy of ra *)
| PLatentV (x y : var)              (* ... the object Vy *)
| PAwait (x : var) (b : bool)       (* Vx.is_awaiting := b *)
| PWait (spec : bool) (a : nat).    (* ra.wait(), inside `with try_compute` when spec *)

Record mstate := MState { regs : list poly; wld : world; rets : list (option Z); oof : bool }.

Definition getr (st : mstate) (a : nat) : poly := nth a (regs st) (pconst 0).
Fixpoint setnth {A} (l : list A) (n : nat) (v : A) : list A :=
  match l, n with
  | [], _ => []
  | _ :: r, O => v :: r
  | x :: r, S n' => x :: setnth r n' v
  end.
Definition setr (st : mstate) (r : nat) (p : poly) : mstate := MState (setnth (regs st) r p) (wld st) (rets st) (oof st).

(* what `rhs.get_current_best_estimate()` gives for a variable, as a polynomial *)
Definition estimate (st : mstate) (x : var) : poly :=
  match lookupv (settled (wld st)) x with
  | Some (VPoly q) => q
  | Some (VVar y) => pvar y
  | None => pvar x
  end.

Definition set_settled (st : mstate) (x : var) (v : value) : mstate :=
  let w := wld st in MState (regs st) (World ((x, v) :: settled w) (awaiting w) (latent w)) (rets st) (oof st).
Definition set_latent (st : mstate) (x : var) (v : value) : mstate :=
  let w := wld st in MState (regs st) (World (settled w) (awaiting w) ((x, v) :: latent w)) (rets st) (oof st).

Definition mstep (st : mstate) (o : pop) : mstate :=
  match o with
  | PConst r k => setr st r (addc (mk [] 0) k)
  | PVar r x => setr st r (addc (add (mk [] 0) (estimate st x)) 0)
  | PAdd r a b => setr st r (add (getr st a) (getr st b))
  | PAddC r a k => setr st r (addc (getr st a) k)
  | PAddV r a x => setr st r (add (getr st a) (estimate st x))
  | PNeg r a => setr st r (neg (getr st a))
  | PSub r a b => setr st r (sub (getr st a) (getr st b))
  | PSubV r a x =>
      (* -Vx is LinearPolynomial({Vx: -1}) whatever Vx is settled to; the sum then holds the variable itself *)
      setr st r (add (getr st a) (mk [(x, -1)] 0))
  | PRSubC r a k => setr st r (addc (neg (getr st a)) k)
  | PScale r a k => setr st r (scale k (getr st a))
  | PSettleC x k => set_settled st x (VPoly (pconst k))
  | PSettleP x a => set_settled st x (VPoly (getr st a))
  | PSettleV x y => set_settled st x (VVar y)
  | PLatentC x k => set_latent st x (VPoly (pconst k))
  | PLatentP x a => set_latent st x (VPoly (getr st a))
  | PLatentV x y => set_latent st x (VVar y)
  | PAwait x b =>
      let w := wld st in
      MState (regs st) (World (settled w) (if b then x :: awaiting w else filter (fun y => negb (y =? x)) (awaiting w)) (latent w)) (rets st) (oof st)
  | PWait spec a =>
      let w := wld st in
      let o1 := oof st || substitute_oof w (getr st a) in
      let '(p1, nr) := substitute w (getr st a) in
      match nr with
      | [] =>
          let '(r, w') := sum_terms spec w (coeffs p1) (const p1) in
          MState (setnth (regs st) a p1) w' (rets st ++ [r]) o1
      | _ =>
          if spec then MState (regs st) w (rets st ++ [None]) o1
          else
            let '(p2, w2, raised, o2) := settle_loop 100 w p1 nr in
            if raised then MState (setnth (regs st) a p2) w2 (rets st ++ [None]) (o1 || o2)
            else let '(r, w3) := sum_terms false w2 (coeffs p2) (const p2) in
                 MState (setnth (regs st) a p2) w3 (rets st ++ [r]) (o1 || o2)
      end
  end.

Definition run_ops (nregs : nat) (ops : list pop) : mstate :=
  fold_left mstep ops (MState (repeat (pconst 0) nregs) (World [] [] []) [] false).

Definition obs_poly := (list (var * Z) * Z)%type.
Definition poly_obs_eqb (p : poly) (o : obs_poly) : bool := poly_eqb p (Poly (fst o) (snd o)).
Definition ret_eqb (p : option Z) (o : option Z) : bool :=
  match p, o with
  | None, None => true
  | Some p, Some o => p =? o
  | _, _ => false
  end.

Fixpoint all2 {A B} (f : A -> B -> bool) (a : list A) (b : list B) : bool :=
  match a, b with
  | [], [] => true
  | x :: xs, y :: ys => f x y && all2 f xs ys
  | _, _ => false
  end.

(* case: (number of registers, operations, observed registers, observed wait results) *)
Definition poly_case := (nat * list pop * list obs_poly * list (option Z))%type.
Definition judge_poly (c : poly_case) : N :=
  let '(n, ops, oregs, orets) := c in
  let st := run_ops n ops in
  (* the model running out of fuel is a failed correspondence, never an answer *)
  code_of (negb (oof st) && all2 poly_obs_eqb (regs st) oregs && all2 ret_eqb (rets st) orets) true.
