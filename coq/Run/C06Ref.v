(* C06 cases and their model-free verdict (bit 1 of the judge code): the observed behaviour of the real
   code against Spec/DataSpec.v and the reference arithmetic restated here.  Imports neither Model/ nor
   Gen/, so it still evaluates when those no longer compile. *)
From Coq Require Import String List ZArith NArith Bool.
From Verif Require Import Spec.DataSpec Spec.DataBlockSpec Run.Show.
Import ListNotations.
Open Scope string_scope.
Open Scope list_scope.
Open Scope Z_scope.

Definition str_eqb := String.eqb.
Definition optz_eqb := opt_eqb Z.eqb.
Definition zs_eqb := list_eqb Z.eqb.
Definition ns_eqb := list_eqb N.eqb.
Definition ns (l : list Z) : list N := map Z.to_N l.

(* diagnostics as observed: severity (error / warning) and identifier, in order *)
Inductive rsev := RE | RW.
Definition rdiag := (rsev * string)%type.
Definition r_is_error (d : rdiag) : bool := match fst d with RE => true | RW => false end.
Definition has_error (ds : list rdiag) : bool := existsb r_is_error ds.

(* ---- get_as_int driven directly ---------------------------------------------------------------- *)
Inductive gai_obs := GRet (v : Z) | GErrRet (id : string) (v : Z) | GErrRaise (id : string) | GOther.

(* reference: accepted iff the magnitude fits (and the sign, when unsigned); then reduced modulo 2^n;
   a rejected value is always reported, and what is handed back is the caller's default, never a
   truncation of the value *)
Definition ref_gai (b : option Z) (u : bool) (d : option Z) (v : Z) (o : gai_obs) : bool :=
  let rejected := (u && (v <? 0)) || match b with Some n => 2 ^ n <=? Z.abs v | None => false end in
  match o with
  | GRet r => negb rejected && (r =? match b with Some n => v mod 2 ^ n | None => v end)
  | GErrRet _ r => rejected && optz_eqb d (Some r)
  | GErrRaise _ => rejected && optz_eqb d None
  | GOther => false
  end.

(* ---- announced sizes seen by introspection: width * max(operand count, 1) for the three value
   directives, nothing announced for the others *)
Definition ref_sizes (name : string) (sizes : list (option Z)) : bool :=
  let w := if str_eqb name ".byte" then Some 1 else if str_eqb name ".word" then Some 2
           else if str_eqb name ".dword" then Some 4 else None in
  list_eqb optz_eqb sizes
    (map (fun n => match w with Some k => Some (k * Z.max (Z.of_nat n) 1) | None => None end) (seq 0 (length sizes))).

(* ---- one directive at one address ---------------------------------------------------------------- *)
Inductive rchunk := RStr (s : list Z) | RCode (n : Z).
(* operands of a numeric directive: (written with '#', evaluated value) *)
Inductive rdir :=
| RMeta (name : string) (ops : list (bool * Z))
| RAscii (z : bool) (ops : list (list rchunk))
| RWordList (ws : list Z).

(* direct drive: ROut (the deferred function returned bytes) / RRaised (RecoverableError came out) / RCrash;
   end to end: ROut (assembled; all diagnostics) or RFailed (assembly failed; all diagnostics) *)
Inductive dir_obs := ROut (ds : list rdiag) (bs : list Z) | RRaised (ds : list rdiag) | RFailed (ds : list rdiag) | RCrash.

Fixpoint oracle_enc (tbl : list (list N * option (list Z))) (s : list N) : option (list Z) :=
  match tbl with
  | [] => None
  | (k, v) :: rest => if ns_eqb k s then v else oracle_enc rest s
  end.

Definition plain (ops : list (bool * Z)) : option (list Z) :=
  if existsb fst ops then None else Some (map snd ops).

Definition chunk_of (c : rchunk) : chunk := match c with RStr s => Str (ns s) | RCode n => Code n end.

(* the directive as a sentence of the Spec; None = not a well-formed data directive (wrong number of
   operands, '#' operand): that must be refused *)
Definition to_sdir (d : rdir) : option sdir :=
  match d with
  | RMeta name ops =>
      match plain ops with
      | None => None
      | Some vs =>
          if str_eqb name ".byte" || str_eqb name ".db" then Some (SData W8 vs) else
          if str_eqb name ".word" || str_eqb name ".dw" then Some (SData W16 vs) else
          if str_eqb name ".dword" then Some (SData W32 vs) else
          if str_eqb name ".blkb" then match vs with [n] => Some (SBlkb n) | _ => None end else
          if str_eqb name ".blkw" then match vs with [n] => Some (SBlkw n) | _ => None end else
          if str_eqb name ".even" then match vs with [] => Some SEven | _ => None end else
          if str_eqb name ".odd" then match vs with [] => Some SOdd | _ => None end else
          if str_eqb name ".align" then match vs with [c] => Some (SAlign c) | _ => None end else
          None
      end
  | RAscii z [cs] => Some (SAscii z (map chunk_of cs))
  | RAscii _ _ => None
  | RWordList [] => None
  | RWordList ws => Some (SWords ws)
  end.

Definition observation_of (o : dir_obs) : observation :=
  match o with
  | ROut ds bs => if has_error ds then Refused else Image bs
  | RRaised ds => if has_error ds then Refused else Crashing
  | RFailed ds => if has_error ds then Refused else Crashing
  | RCrash => Crashing
  end.

Definition prop_dir (enc : list N -> option (list Z)) (d : rdir) (addr : Z) (o : dir_obs) : bool :=
  match to_sdir d with
  | Some sd => meets enc sd addr (observation_of o)
  | None => match observation_of o with Refused => true | _ => false end
  end.

(* when the announced size was observed and an image came out without error, they agree *)
Definition prop_announce (ann : option (option Z)) (o : dir_obs) : bool :=
  match ann, o with
  | Some (Some a), ROut ds bs => has_error ds || (Z.of_nat (length bs) =? a)
  | _, _ => true
  end.

(* ---- quoted strings ---------------------------------------------------------------------------- *)
Inductive scan_obs := SOk (value : list Z) (ds : list string) (rest : list Z) | SUnterminated (ds : list string) | SCrash (ds : list string).

(* [expect = Some (s, rest)]: the text was written as  escape s ++ [q] ++ rest ; reading it must give s back, silently *)
Definition prop_scan (q : N) (text : list N) (expect : option (list N * list N)) (o : scan_obs) : bool :=
  match expect with
  | Some (s, rest) =>
      ns_eqb text (escape s ++ q :: rest) &&
      match o with SOk v ds r => ns_eqb (ns v) s && match ds with [] => true | _ => false end && ns_eqb (ns r) rest | _ => false end
  | None => true
  end.

(* ---- values written as character literals; directives one after another and inside .repeat ------- *)
Inductive roperand := RVal (v : Z) | RLit (chars : list Z).
Inductive rdirl := RPlain (d : rdir) | RLitDir (name : string) (ops : list roperand).
Inductive ritem := ROne (d : rdirl) | RRepeat (n : Z) (body : list rdirl).

Definition soperand_of (o : roperand) : soperand := match o with RVal v => SVal v | RLit cs => SLit (ns cs) end.

Definition width_of_name (name : string) : option width :=
  if str_eqb name ".byte" || str_eqb name ".db" then Some W8 else
  if str_eqb name ".word" || str_eqb name ".dw" then Some W16 else
  if str_eqb name ".dword" then Some W32 else None.

Definition to_sdirl (d : rdirl) : option sdirl :=
  match d with
  | RPlain d => match to_sdir d with Some sd => Some (SPlain sd) | None => None end
  | RLitDir name ops => match width_of_name name with Some w => Some (SDataL w (map soperand_of ops)) | None => None end
  end.

Fixpoint all_some {A} (l : list (option A)) : option (list A) :=
  match l with
  | [] => Some []
  | Some x :: rest => match all_some rest with Some xs => Some (x :: xs) | None => None end
  | None :: _ => None
  end.

Definition to_sitem (it : ritem) : option sitem :=
  match it with
  | ROne d => match to_sdirl d with Some sd => Some (SOne sd) | None => None end
  | RRepeat n body => match all_some (map to_sdirl body) with Some b => Some (SRepeat n b) | None => None end
  end.

(* the whole program against the images the Spec states, each directive at its running address *)
Definition prop_items (enc : list N -> option (list Z)) (its : list ritem) (addr : Z) (o : dir_obs) : bool :=
  match all_some (map to_sitem its) with
  | Some sits => meets_items enc sits addr (observation_of o)
  | None => match observation_of o with Refused => true | _ => false end
  end.

Inductive case :=
| CGai (b : option Z) (u : bool) (d : option Z) (v : Z) (o : gai_obs)
| CMeta (name : string) (aliases : list string) (raw : bool) (hints : list string) (mn : Z) (mx : option Z) (sizes : list (option Z))
| CDir (bk : bool) (d : rdir) (addr : Z) (oracle : list (list Z * option (list Z))) (ann : option (option Z)) (o : dir_obs)
| CScan (q : Z) (text : list Z) (expect : option (list Z * list Z)) (o : scan_obs)
| CClass (spaces : list Z) (lowers : list (Z * Z))
| CDirL (bk : bool) (name : string) (ops : list roperand) (addr : Z) (oracle : list (list Z * option (list Z))) (ann : option (option Z)) (o : dir_obs)
| CItems (bk : bool) (its : list ritem) (addr : Z) (oracle : list (list Z * option (list Z))) (o : dir_obs).

Definition oracle_of (oracle : list (list Z * option (list Z))) : list N -> option (list Z) :=
  oracle_enc (map (fun kv => (ns (fst kv), snd kv)) oracle).

Definition prop_case (c : case) : bool :=
  match c with
  | CGai b u d v o => ref_gai b u d v o
  | CMeta name _ _ _ _ _ sizes => ref_sizes name sizes
  | CDir _ d addr oracle ann o => prop_dir (oracle_of oracle) d addr o && prop_announce ann o
  | CScan q text expect o =>
      prop_scan (Z.to_N q) (ns text) (match expect with Some (s, r) => Some (ns s, ns r) | None => None end) o
  | CClass _ _ => true
  | CDirL _ name ops addr oracle ann o =>
      prop_items (oracle_of oracle) [ROne (RLitDir name ops)] addr o && prop_announce ann o
  | CItems _ its addr oracle o => prop_items (oracle_of oracle) its addr o
  end.

(* 0 = consistent with the property, 2 = contradicts it *)
Definition judge_ref (c : case) : N := code_of true (prop_case c).
