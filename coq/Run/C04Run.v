(* evaluation of C04 cases.  Imports no proofs. *)
From Coq Require Import ZArith List String Ascii Bool.
From Verif Require Import Base.Res Spec.PDP11 Gen.GenOpcodes Model.Insns Run.Show Run.C01Run.
Import ListNotations.
Open Scope string_scope.
Open Scope list_scope.
Open Scope Z_scope.

(* ---- end-to-end branches: "m <target t>" at addr; [reg] = Some r for sob ---------------------- *)
(* the right-hand sides of branch_accept_iff / sob_accept_iff, restated *)
Definition reach_ok (sob : bool) (d : Z) : bool :=
  Z.even d && (if sob then (-126 <=? d) && (d <=? 0) else (-256 <=? d) && (d <=? 254)).

Definition canon_name (m : string) : string :=
  match canon m with Some (n, _, _) => n | None => "" end.

Definition prop_branch (m : string) (reg : option Z) (t addr : Z) (o : observed) : bool :=
  let d := t - (addr + 2) in
  let sob := match reg with Some _ => true | None => false end in
  match o with
  | ObsOk [w] =>
      reach_ok sob d &&
      match decode [w] addr, reg with
      | Some (n, [STarget a], 1%nat), None => String.eqb n (canon_name m) && (a =? wrap16 t)
      | Some (n, [SReg r'; STarget a], 1%nat), Some r => String.eqb n (canon_name m) && (a =? wrap16 t) && (r' =? r)
      | _, _ => false
      end
  | ObsOk _ => false
  | ObsFail => negb (reach_ok sob d)
  | ObsCrash => false
  end.

Definition judge_branch (c : string * option Z * Z * Z * observed) : N :=
  let '(m, reg, t, addr, o) := c in
  let ops := match reg with Some r => [OReg r; ORel t] | None => [ORel t] end in
  code_of (corr_insn m ops addr o) (prop_branch m reg t addr o).

(* ---- end-to-end relative operands: line (m, ops) at addr, operand i is ORel t / ORelDef t ------ *)
Definition pre_len (m : string) : nat :=
  match canon m with Some (_, pre, _) => List.length pre | None => 0%nat end.

Definition prop_relative (m : string) (ops : list operand) (addr : Z) (i : nat) (o : observed) : bool :=
  prop_insn m ops addr o &&
  match o, nth_error ops i with
  | ObsOk ws, Some (ORel t) =>
      match decode ws addr with
      | Some (_, sops, _) => match nth_error sops (pre_len m + i) with Some (SRel a) => a =? wrap16 t | _ => false end
      | None => false
      end
  | ObsOk ws, Some (ORelDef t) =>
      match decode ws addr with
      | Some (_, sops, _) => match nth_error sops (pre_len m + i) with Some (SRelDef a) => a =? wrap16 t | _ => false end
      | None => false
      end
  | ObsOk _, _ => false
  | _, _ => false        (* a relative operand of a double-operand instruction is never refused *)
  end.

Definition judge_relative (c : string * list operand * Z * nat * observed) : N :=
  let '(m, ops, addr, i, o) := c in
  code_of (corr_insn m ops addr o) (prop_relative m ops addr i o).

(* ---- the stubs' inner functions, driven directly --------------------------------------------- *)
(* window sweep of OffsetOperandStub's fn: for every target t in [lo, lo+n) with rel fixed, the
   implementation accepted exactly the listed (t, field) pairs and reported an error otherwise *)
Fixpoint assocz (k : Z) (l : list (Z * Z)) : option Z :=
  match l with
  | [] => None
  | (a, b) :: r => if a =? k then Some b else assocz k r
  end.

Definition offset_window_ok (chk : Z -> option Z -> bool) (lo n : Z) (acc : list (Z * Z)) : bool :=
  snd (Z.iter n (fun st => let '(t, ok) := st in (t + 1, ok && chk t (assocz t acc))) (lo, true)).

Definition corr_offset (u : bool) (bits rel : Z) (t : Z) (obs : option Z) : bool :=
  match enc_offset u bits t rel, obs with
  | Ok f, Some f' => f =? f'
  | Err _, None => true
  | _, _ => false
  end.

(* Spec side: the field, read by the processor at rel-2, must give t; accepted iff within reach *)
Definition prop_offset (u : bool) (rel : Z) (t : Z) (obs : option Z) : bool :=
  match obs with
  | Some f =>
      reach_ok u (t - rel) &&
      (if u then (0 <=? f) && (f <? 64) && (sob_target (rel - 2) f =? wrap16 t)
       else (-128 <=? f) && (f <=? 127) && (branch_target (rel - 2) (f mod 256) =? wrap16 t))
  | None => negb (reach_ok u (t - rel))
  end.

Definition judge_offset_window (c : bool * Z * Z * Z * Z * list (Z * Z)) : N :=
  let '(u, bits, rel, lo, n, acc) := c in
  code_of (offset_window_ok (corr_offset u bits rel) lo n acc)
          (offset_window_ok (prop_offset u rel) lo n acc && ((bits =? (if u then 6 else 8)))).

(* ImmediateOperandStub's fn over a window of values *)
Definition corr_imm (u : bool) (bits : Z) (v : Z) (obs : option Z) : bool :=
  match enc_imm u bits v, obs with
  | Ok f, Some f' => f =? f'
  | Err _, None => true
  | _, _ => false
  end.
Definition prop_imm (u : bool) (bits : Z) (v : Z) (obs : option Z) : bool :=
  let legal := (if u then 0 <=? v else - 2 ^ bits <? v) && (v <? 2 ^ bits) in
  match obs with
  | Some f => legal && (f =? v mod 2 ^ bits)
  | None => negb legal
  end.
Definition judge_imm_window (c : bool * Z * Z * Z * list (Z * Z)) : N :=
  let '(u, bits, lo, n, acc) := c in
  code_of (offset_window_ok (corr_imm u bits) lo n acc) (offset_window_ok (prop_imm u bits) lo n acc).

(* the relative-mode lambdas: (target, rel, emitted word) *)
Definition judge_rel_lambda (c : Z * Z * Z) : N :=
  let '(t, rel, w) := c in
  code_of (enc_rel t rel =? w) (is_word w && (wrap16 (rel + 2 + w) =? wrap16 t)).
