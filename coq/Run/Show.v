(* helpers for generated cases_*.v files *)
From Coq Require Import List NArith ZArith Bool String.
Import ListNotations.

Definition code_of (corr prop : bool) : N :=
  ((if corr then 0 else 1) + (if prop then 0 else 2))%N.

Fixpoint list_eqb {A} (eqb : A -> A -> bool) (a b : list A) : bool :=
  match a, b with
  | [], [] => true
  | x :: xs, y :: ys => eqb x y && list_eqb eqb xs ys
  | _, _ => false
  end.

Definition opt_eqb {A} (eqb : A -> A -> bool) (a b : option A) : bool :=
  match a, b with
  | None, None => true
  | Some x, Some y => eqb x y
  | _, _ => false
  end.
