(* C11: the Spec-only half of the judge (no model): usable when Model/ScopeM.v no longer compiles *)
From Coq Require Import String List ZArith NArith Bool.
From Verif Require Import Base.Res Spec.Scope Run.Show.
Import ListNotations.
Open Scope Z_scope.

Inductive obs :=
| ObsOk (words : list Z) (table : list (string * Z))
| ObsFail (ids : list string)
| ObsOther.

Definition FUEL : nat := 3000.

Definition has (e : string) (l : list string) : bool := existsb (String.eqb e) l.

Definition same_errors (es ids : list string) : bool :=
  forallb (fun e => has e ids) es && forallb (fun i => has i es) ids.

Definition out_agrees (o : outcome) (ob : obs) : bool :=
  match o, ob with
  | OutOk ws, ObsOk ws' _ => list_eqb Z.eqb ws ws'
  | OutFail es, ObsFail ids => same_errors es ids
  | _, _ => false
  end.

Definition prop (p : program) (ob : obs) : bool :=
  match spec_run FUEL p with
  | Ok o => out_agrees o ob
  | _ => false
  end.

Definition wf (p : program) : bool :=
  forallb (wf_items 50) (linked p) && forallb (wf_items 50) (inctable p).

Definition judge_spec (c : program * obs) : N :=
  if wf (fst c) then (if prop (fst c) (snd c) then 0 else 2)%N else 4%N.

(* the definition-reference stream: 'x = tgt' (x used by nothing) is represented by the pair [Assign x ext 0; Ref tgt] --
   the reference inside a definition is resolved with the state of its own statement and forced at link time, i.e. it is
   a use site at that position.  The pair emits a word the real statement does not, so only the outcome class and the
   set of error identifiers are compared here, never the words. *)
Definition class_agrees (o : outcome) (ob : obs) : bool :=
  match o, ob with
  | OutOk _, ObsOk _ _ => true
  | OutFail es, ObsFail ids => same_errors es ids
  | _, _ => false
  end.

Definition prop_class (p : program) (ob : obs) : bool :=
  match spec_run FUEL p with
  | Ok o => class_agrees o ob
  | _ => false
  end.

Definition judge_class_spec (c : program * obs) : N :=
  if wf (fst c) then (if prop_class (fst c) (snd c) then 0 else 2)%N else 4%N.
