(* evaluation of C11 cases: an abstract multi-file program and what pdpy11 did with its printed form.
   bit 0: Model.ScopeM (the prefix-counter mechanism, incl. the rendered table keys) disagrees with the observation;
   bit 1: Spec.Scope (declarative scoping) disagrees with the observation (Run/C11SpecRun.v). *)
From Coq Require Import String List ZArith NArith Bool.
From Verif Require Import Base.Res Spec.Scope Model.ScopeM Run.Show Run.C11SpecRun.
Import ListNotations.
Open Scope Z_scope.

Definition table_agrees (t : list (string * Z)) (ob : obs) : bool :=
  match ob with
  | ObsOk _ t' => list_eqb (fun a b => String.eqb (fst a) (fst b) && Z.eqb (snd a) (snd b)) t t'
  | _ => true
  end.

Definition corr (p : program) (ob : obs) : bool :=
  match model_run FUEL p with
  | Ok (o, t) => out_agrees o ob && table_agrees t ob
  | _ => false
  end.

(* 4 = the case is outside the generator's domain (a harness bug, never expected) *)
Definition judge (c : program * obs) : N :=
  if wf (fst c) then code_of (corr (fst c) (snd c)) (prop (fst c) (snd c)) else 4%N.

Definition corr_class (p : program) (ob : obs) : bool :=
  match model_run FUEL p with
  | Ok (o, _) => class_agrees o ob
  | _ => false
  end.

Definition judge_class (c : program * obs) : N :=
  if wf (fst c) then code_of (corr_class (fst c) (snd c)) (prop_class (fst c) (snd c)) else 4%N.
