(* evaluation of C14 cases: correspondence (model vs observed) and property (Spec vs observed) *)
From Coq Require Import List NArith Bool.
From Verif Require Import Base.Range Gen.GenBkTable Model.BkCodec Spec.Koi8 Run.Show.
Import ListNotations.
Open Scope N_scope.

Fixpoint assoc (c : N) (m : list (N * N)) : option N :=
  match m with
  | [] => None
  | (k, v) :: rest => if k =? c then Some v else assoc c rest
  end.

(* dec: what bytes(range(256)).decode('bk') gave, as 256 code points
   acc: every code point of 0..0x10FFFF that str.encode('bk') accepted, with its byte *)
Definition corr_tables (dec : list N) (acc : list (N * N)) : bool :=
  list_eqb (opt_eqb N.eqb) (map bk_decode_byte (nrange 256)) (map Some dec)
  && forallb (fun cb => opt_eqb N.eqb (bk_encode_char (fst cb)) (Some (snd cb))) acc
  && forallb (fun c => match assoc c acc with Some _ => true | None => false end) bk_all_chars.

(* the property, on the observed tables only (no model, no Gen) *)
Definition prop_tables (dec : list N) (acc : list (N * N)) : bool :=
  Nat.eqb (length dec) 256
  && forallb (fun b => match nth_error dec (N.to_nat b) with
                       | Some c => opt_eqb N.eqb (assoc c acc) (Some b)
                                   && (if ascii_range b then c =? b else true)
                                   && (if 192 <=? b then opt_eqb N.eqb (koi8r b) (Some c) else true)
                       | None => false end) (nrange 256)
  && forallb (fun cb => (snd cb <? 256) &&
                        (if fst cb <=? 126 then snd cb =? fst cb else true) &&
                        (* on 0xC0-0xFF only the KOI8-R character of the byte is accepted *)
                        (if 192 <=? snd cb then opt_eqb N.eqb (koi8r (snd cb)) (Some (fst cb)) else true)) acc.

Inductive observed := ObsOk (bs : list N) | ObsErr (a e : nat) | ObsOther.

Definition corr_string (s : list N) (o : observed) : bool :=
  match bk_encode s, o with
  | EncOk bs, ObsOk bs' => list_eqb N.eqb bs bs'
  | EncError a e, ObsErr a' e' => Nat.eqb a a' && Nat.eqb e e'
  | _, _ => false
  end.

(* property on a string, judged against the implementation's own per-character map [acc]:
   success iff every character is accepted, and then the bytes are the per-character bytes;
   failure names a position inside the string that holds an unaccepted character *)
Definition prop_string (acc : list (N * N)) (s : list N) (o : observed) : bool :=
  let all_ok := forallb (fun c => match assoc c acc with Some _ => true | None => false end) s in
  match o with
  | ObsOk bs => all_ok && list_eqb (opt_eqb N.eqb) (map (fun c => assoc c acc) s) (map Some bs)
  | ObsErr a e => negb all_ok && Nat.ltb a e && Nat.leb e (length s) &&
                  match nth_error s a with
                  | Some c => match assoc c acc with None => true | Some _ => false end
                  | None => false end
  | ObsOther => false
  end.

Definition judge_tables dec acc : N := code_of (corr_tables dec acc) (prop_tables dec acc).
Definition judge_string acc (so : list N * observed) : N :=
  code_of (corr_string (fst so) (snd so)) (prop_string acc (fst so) (snd so)).
