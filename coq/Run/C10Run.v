(* evaluation of C10 cases.  bit 0: model disagrees with the implementation's observation,
   bit 1: the observation contradicts the property (judged without the models: history-scan
   specification of a case-insensitive dictionary, checker for a whitespace skip, the number
   a spelling was generated from, the register a spelling was generated from). *)
From Coq Require Import List NArith ZArith Bool String.
From Verif Require Import Base.Res Base.Range Gen.GenOpcodes Gen.GenSpelling Model.CIDict Model.SkipWs Model.Spelling Run.Show.
Import ListNotations.
Open Scope N_scope.

(* ---------------------------------------------------------------- str.lower oracle
   [lowmap]: (key, key.lower()) as computed by CPython for every key of the case.  The model
   uses ascii_lower_str for ASCII keys and the oracle for the others; [lowmap_ok] ties
   ascii_lower_str to CPython on the ASCII keys. *)
Definition all_ascii (s : str) : bool := forallb is_ascii s.
Definition low_of (lowmap : list (str * str)) (k : str) : str :=
  if all_ascii k then ascii_lower_str k
  else match assoc_str k lowmap with Some l => l | None => k end.
Definition lowmap_ok (lowmap : list (str * str)) : bool :=
  forallb (fun kl => if all_ascii (fst kl) then str_eqb (ascii_lower_str (fst kl)) (snd kl) else true) lowmap.

(* ---------------------------------------------------------------- CaseInsensitiveDict *)
Inductive dop :=
| DSet (k : str) (v : N)
| DGet (k : str)            (* d.get(k)          *)
| DIn (k : str)             (* k in d            *)
| DItem (k : str)           (* d[k]              *)
| DItems                    (* list(d.items())   *)
| DKeys.                    (* list(d)           *)

Inductive dobs :=
| OUnit
| OOpt (v : option N)       (* get / [] : None = default None / KeyError *)
| OBool (b : bool)
| OItems (l : list (str * N))
| OKeys (l : list str).

Definition kv_eqb (a b : str * N) : bool := str_eqb (fst a) (fst b) && (snd a =? snd b).

Definition obs_eqb (a b : dobs) : bool :=
  match a, b with
  | OUnit, OUnit => true
  | OOpt x, OOpt y => opt_eqb N.eqb x y
  | OBool x, OBool y => Bool.eqb x y
  | OItems x, OItems y => list_eqb kv_eqb x y
  | OKeys x, OKeys y => list_eqb str_eqb x y
  | _, _ => false
  end.

(* model run *)
Fixpoint run_model (low : str -> str) (d : cidict N) (ops : list dop) : list dobs :=
  match ops with
  | [] => []
  | DSet k v :: r => OUnit :: run_model low (set low k v d) r
  | DGet k :: r => OOpt (get low k None d) :: run_model low d r
  | DIn k :: r => OBool (contains low k d) :: run_model low d r
  | DItem k :: r => OOpt (getitem low k d) :: run_model low d r
  | DItems :: r => OItems (items d) :: run_model low d r
  | DKeys :: r => OKeys (keys d) :: run_model low d r
  end.

(* specification by scanning the history of assignments (newest first), no dictionary *)
Fixpoint last_set (low : str -> str) (lk : str) (hist : list (str * N)) : option (str * N) :=
  match hist with
  | [] => None
  | (k, v) :: older => if str_eqb (low k) lk then Some (k, v) else last_set low lk older
  end.
(* distinct lowered keys in order of first assignment *)
Fixpoint first_order (low : str -> str) (chron : list (str * N)) (seen : list str) : list str :=
  match chron with
  | [] => []
  | (k, _) :: r => if existsb (str_eqb (low k)) seen then first_order low r seen
                   else low k :: first_order low r (low k :: seen)
  end.
Definition spec_items (low : str -> str) (hist : list (str * N)) : list (str * N) :=
  flat_map (fun lk => match last_set low lk hist with Some e => [e] | None => [] end)
           (first_order low (rev hist) []).

Fixpoint run_spec (low : str -> str) (hist : list (str * N)) (ops : list dop) : list dobs :=
  match ops with
  | [] => []
  | DSet k v :: r => OUnit :: run_spec low ((k, v) :: hist) r
  | DGet k :: r => OOpt (option_map snd (last_set low (low k) hist)) :: run_spec low hist r
  | DIn k :: r => OBool (match last_set low (low k) hist with Some _ => true | None => false end) :: run_spec low hist r
  | DItem k :: r => OOpt (option_map snd (last_set low (low k) hist)) :: run_spec low hist r
  | DItems :: r => OItems (spec_items low hist) :: run_spec low hist r
  | DKeys :: r => OKeys (map fst (spec_items low hist)) :: run_spec low hist r
  end.

(* init: the container the dictionary was constructed from (CaseInsensitiveDict(container)) *)
Definition judge_dict (c : list (str * str) * list (str * N) * list dop * list dobs) : N :=
  let '(lowmap, init, ops, obs) := c in
  let low := low_of lowmap in
  code_of (lowmap_ok lowmap && list_eqb obs_eqb (run_model low (of_items low init) ops) obs)
          (list_eqb obs_eqb (run_spec low (rev init) ops) obs).

(* ---------------------------------------------------------------- skip_whitespace *)
(* checker: from [s] (text at pos) exactly [n] characters were skipped *)
Fixpoint skipped_ok (in_comment : bool) (n : nat) (s : list N) : bool :=
  match n with
  | O => if in_comment then match s with [] => true | _ => false end     (* a comment only ends at a newline or at the end *)
         else match s with
              | [] => true
              | c :: _ => negb (is_space c) && negb (c =? 59)
              end
  | S m =>
      match s with
      | [] => false
      | c :: r =>
          if in_comment then skipped_ok (negb (c =? 10)) m r
          else if is_space c then skipped_ok false m r
          else if c =? 59 then skipped_ok true m r
          else false
      end
  end.

Definition judge_skip (c : list N * nat * nat * bool) : N :=
  let '(code, pos, newpos, obs_eof) := c in
  code_of (Nat.eqb (skip_pos code pos) newpos && Bool.eqb (eof code pos) obs_eof)
          (Nat.leb pos newpos && skipped_ok false (newpos - pos) (skipn pos code)).

(* pyspaces: every code point c of 0..0x10FFFF with chr(c).strip() == "" *)
Definition cp_0_16383 : list N := flat_map (fun k => map (fun i => k * 4096 + i) (nrange 4096)) [0; 1; 2; 3].
(* is_space is false above U+3000 (Proofs/SpellingP.v: is_space_bound), so 0..16383 decides it *)
Definition judge_spaces (pyspaces : list N) : N :=
  code_of (list_eqb N.eqb (filter is_space cp_0_16383) pyspaces) true.

(* ---------------------------------------------------------------- numbers *)
Inductive nobs :=
| NNum (v : Z) (valid_label invalid8 reported : bool)
| NNot
| NCrit
| NOther.

Definition lex_eqb (m : lexres) (o : nobs) : bool :=
  match m, o with
  | LNumber v a b c, NNum v' a' b' c' => (v =? v')%Z && Bool.eqb a a' && Bool.eqb b b' && Bool.eqb c c'
  | LNotNumber, NNot => true
  | LCritical, NCrit => true
  | LUnmodelled, _ => true          (* outside the model's domain: no claim *)
  | _, _ => false
  end.

(* expected: Some n when the text was produced as a spelling of n *)
Definition judge_lex (c : str * option Z * nobs) : N :=
  let '(text, expected, o) := c in
  code_of (lex_eqb (lex_number text) o)
          (match expected with
           | None => true
           | Some n => match o with NNum v _ _ _ => (v =? n)%Z | _ => false end
           end).

(* ---------------------------------------------------------------- registers / operands *)
Inductive robs := RNone | RReg (n : N) | RErr.

Definition reg_eqb (m : option (res N)) (o : robs) : bool :=
  match m, o with
  | None, RNone => true
  | Some (Ok n), RReg n' => n =? n'
  | Some (Err _), RErr => true
  | _, _ => false
  end.

Definition judge_reg (c : list (str * str) * regtok * option N * robs) : N :=
  let '(lowmap, t, expected, o) := c in
  code_of (lowmap_ok lowmap && reg_eqb (try_as_register (low_of lowmap) t) o)
          (match expected with None => true | Some n => match o with RReg n' => n =? n' | _ => false end end).

(* observed encoding of an operand: inline value (mode*8+reg), number of extension bytes,
   whether 'legacy-deferred' / 'implicit-index' was warned; OEFail = an error was reported *)
Inductive eobs := OEnc (code : N) (extlen : N) (warns : list string) | OEFail.

Definition ext_len (x : ext) : N := match x with XNone => 0 | _ => 2 end.

(* the extension word is evaluated eagerly; a register inside a value expression is an error
   ('unexpected-register' from Symbol._resolve, 'unexpected-value' from the '%' operator) *)
Fixpoint has_reg (t : otree) : bool :=
  match t with
  | OReg r => match try_as_register ascii_lower_str r with Some _ => true | None => false end
  | OParen _ x | ODeferred x | OPostAdd x | ONeg x | OImm x => has_reg x
  | OCall l r => has_reg l || has_reg r
  | OVal => false
  end.
Definition ext_fails (x : ext) : bool :=
  match x with
  | XNone | XZero => false
  | XIndex t | XImm t | XAbs t | XRel t | XRelDef t => has_reg t
  end.

Definition enc_eqb (m : encoded) (o : eobs) : bool :=
  if ext_fails (e_ext m) then match o with OEFail => true | _ => false end
  else
  match e_reg m, o with
  | Ok r, OEnc code n w => (e_mode m * 8 + r =? code) && (ext_len (e_ext m) =? n) && list_eqb String.eqb (e_warn m) w
  | Err _, OEFail => true
  | _, _ => false
  end.

(* expected: Some code when the operand was produced as a spelling of mode/register code *)
Definition judge_operand (c : otree * option N * eobs) : N :=
  let '(t, expected, o) := c in
  code_of (enc_eqb (classify ascii_lower_str t) o)
          (match expected with None => true | Some code => match o with OEnc code' _ _ => code =? code' | OEFail => false end end).

(* ---------------------------------------------------------------- synonyms *)
(* groups: the implementation's instruction table grouped by identical expanded pattern
   (pdpy11.insns.instructions[..].opcode_pattern); every frozen pair must lie inside a group *)
Definition judge_synonyms (groups : list (list string)) : N :=
  let in_same g (p : string * string) := existsb (String.eqb (fst p)) g && existsb (String.eqb (snd p)) g in
  code_of (forallb same_pattern synonym_pairs)
          (forallb (fun p => existsb (fun g => in_same g p) groups) synonym_pairs).
