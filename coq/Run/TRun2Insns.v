(* judges of tools/t_check2.py for Gen/GenPure2Insns.v (regenerated from pdpy11/insns.py on every run): the translated
   `indexes_of_char` loop + `get_opcode` evaluated on the inputs the real Instruction.compile_insn was driven with.
   0 = the generated code gives exactly what the implementation gave (bytes, or some Python exception), 1 otherwise.
   Imports Gen / Base / Run only. *)
From Coq Require Import String Ascii List ZArith NArith Bool.
From Verif Require Import Base.Res Base.Bytes Gen.GenPure2 Gen.GenPure2Insns Run.Show Run.TRun.
Import ListNotations.
Open Scope Z_scope.

(* what compile_insn defers: the dict is built, then get_opcode runs with it as its closure variable *)
Definition run_opcode (p : list ascii) (reps : list (stub2 * Z)) : res (list Z) :=
  do d <- g_indexes_of_char p; g_get_opcode p reps d.

(* (opcode_pattern, [(pattern_char, bit_indexes, awaited inline value)], bytes get_opcode() returned) *)
Definition judge_get_opcode (c : string * list (string * list Z * Z) * res (list Z)) : N :=
  let '(p, reps, impl) := c in
  let ch1 (s : string) := match s with String a _ => a | EmptyString => Ascii.zero end in
  code (res_eqb (list_eqb Z.eqb)
          (run_opcode (list_ascii_of_string p) (map (fun r => (mkStub2 (ch1 (fst (fst r))) (snd (fst r)), snd r)) reps)) impl).
