(* Run/C01ClassifyRun.v -- judge of tools/classify_corr.py: Model/Classify.v against the real
   RegisterModeOperandStub.encode / FP11RMOperandStub.encode, (a) driven directly on the operand token the real
   parser built, (b) end to end through the assembled bytes.  Imports Model/Spec/Base only. *)
From Coq Require Import ZArith List String Ascii Bool.
From Verif Require Import Base.Res Model.Classify.
Import ListNotations.
Open Scope string_scope.
Open Scope list_scope.
Open Scope Z_scope.

(* a small evaluator, only to check WHICH subtree the code evaluated for the extension word *)
Fixpoint lookup (env : list (string * Z)) (n : string) : option Z :=
  match env with [] => None | (k, v) :: r => if String.eqb k n then Some v else lookup r n end.
Definition lift2 (f : Z -> Z -> Z) (a b : option Z) : option Z :=
  match a, b with Some x, Some y => Some (f x y) | _, _ => None end.
Fixpoint ev (env : list (string * Z)) (dot : Z) (t : optree) : option Z :=
  match t with
  | TNum v => Some v
  | TSym n false => match try_reg t with Some _ => None | None => lookup env n end
  | TDot => Some dot
  | TParen _ e => ev env dot e
  | TInfix IAdd l r => lift2 Z.add (ev env dot l) (ev env dot r)
  | TInfix ISub l r => lift2 Z.sub (ev env dot l) (ev env dot r)
  | TInfix IMul l r => lift2 Z.mul (ev env dot l) (ev env dot r)
  | TPrefix PNeg e => option_map Z.opp (ev env dot e)
  | TPrefix PPos e => ev env dot e
  | _ => None
  end.

Fixpoint sl_eqb (a b : list string) : bool :=
  match a, b with
  | [], [] => true
  | x :: xs, y :: ys => String.eqb x y && sl_eqb xs ys
  | _, _ => false
  end.
Definition oz_eqb (a b : option Z) : bool :=
  match a, b with Some x, Some y => Z.eqb x y | None, None => true | _, _ => false end.

(* direct drive: value returned by encode (Some int / None = a Deferred), kind of the extension
   (0 = b"", 1 = a 2-byte SizedDeferred, 2 = literal b"\0\0"), warnings, errors reported *)
Record direct := { d_field : option Z; d_ext : Z; d_warn : list string; d_err : list string }.
(* end to end: 6-bit field of the emitted opcode word, extension word if any, address of the instruction *)
Record e2e := { e_field : Z; e_ext : option Z; e_addr : Z }.

Record case := { c_fp : bool; c_tree : optree; c_env : list (string * Z);
                 c_direct : direct; c_e2e : option e2e; c_form : option oform }.

Definition run (c : case) : res outcome := if c_fp c then classify_fp (c_tree c) else classify (c_tree c).

Definition ext_kind (o : oform) (w : list string) : Z :=
  match expr_of o with
  | None => 0
  | Some _ => if sl_eqb w ["implicit-index"] then 2 else 1
  end.
Definition norm_warn (w : list string) : list string :=
  if sl_eqb w ["implicit-accumulator:when-resolved"] then [] else w.

(* the harness drives encode with eager computation of Deferred values switched off: '%e' gives a Deferred field *)
Definition judge_direct (c : case) : bool :=
  let d := c_direct c in
  match run c with
  | Ok (o, w) =>
      oz_eqb (field_of o) (d_field d) && Z.eqb (ext_kind o w) (d_ext d) && sl_eqb (norm_warn w) (d_warn d)
      && sl_eqb [] (d_err d)
  | Err ids => sl_eqb ids (d_err d)
  | _ => false
  end.

(* 0 = agrees or not checkable; 1 = field differs; 2 = extension presence / value differs *)
Definition judge_e2e (c : case) : Z :=
  match c_e2e c, run c with
  | None, _ => 0
  | Some e, Ok (o, w) =>
      let evx := ev (c_env c) (e_addr e) in
      let fld := match reg_of o with
                 | Some (RName n) => Some (Z.lor (mode_bits o) n)
                 | Some (RPct x) => option_map (fun v => Z.lor (mode_bits o) v) (evx x)
                 | None => Some (mode_bits o)
                 end in
      let f_bad := match fld with Some f => negb (Z.eqb f (e_field e)) | None => false end in
      let rel v := (v - (e_addr e + 2) - 2) mod 65536 in
      let want := match o with
                  | FIndex x _ | FIndexDef x _ | FImm x | FAbs x => option_map (fun v => v mod 65536) (evx x)
                  | FRel x | FRelDef x => option_map rel (evx x)
                  | _ => None
                  end in
      let x_bad := match expr_of o, e_ext e with
                   | None, None => false
                   | Some _, Some got => match want with Some v => negb (Z.eqb v got) | None => false end
                   | _, _ => true
                   end in
      (if f_bad then 1 else 0) + (if x_bad then 2 else 0)
  | Some _, _ => 1        (* assembled without error although the model reports one *)
  end.

(* decidable equality, for the form check *)
Definition icode (o : infix_op) : Z :=
  match o with IMul => 0 | IDiv => 1 | IMod => 2 | IAdd => 3 | ISub => 4 | IShl => 5 | IShr => 6 | ILsh => 7
             | IAnd => 8 | IXor => 9 | IOr => 10 | IOr2 => 11 end.
Definition pcode (o : prefix_op) : Z :=
  match o with PPos => 0 | PNeg => 1 | PInv => 2 | PInv2 => 3 | PImm => 4 | PDef => 5 | PPct => 6 end.
Definition qcode (o : postfix_op) : Z := match o with QAdd => 0 | QSub => 1 end.
Fixpoint tree_eqb (a b : optree) : bool :=
  match a, b with
  | TSym n l, TSym n' l' => String.eqb n n' && Bool.eqb l l'
  | TNum v, TNum v' => Z.eqb v v'
  | TDot, TDot => true
  | TOther s, TOther s' => String.eqb s s'
  | TParen r e, TParen r' e' => Bool.eqb r r' && tree_eqb e e'
  | TInfix o l r, TInfix o' l' r' => Z.eqb (icode o) (icode o') && tree_eqb l l' && tree_eqb r r'
  | TPrefix o e, TPrefix o' e' => Z.eqb (pcode o) (pcode o') && tree_eqb e e'
  | TPostfix o e, TPostfix o' e' => Z.eqb (qcode o) (qcode o') && tree_eqb e e'
  | TCall l r, TCall l' r' => tree_eqb l l' && tree_eqb r r'
  | _, _ => false
  end.
Definition reg_eqb (a b : regref) : bool :=
  match a, b with RName n, RName n' => Z.eqb n n' | RPct e, RPct e' => tree_eqb e e' | _, _ => false end.
Definition opt_eqb {A} (f : A -> A -> bool) (a b : option A) : bool :=
  match a, b with Some x, Some y => f x y | None, None => true | _, _ => false end.
Definition oform_eqb (a b : oform) : bool :=
  Z.eqb (mode_bits a) (mode_bits b) && opt_eqb reg_eqb (reg_of a) (reg_of b) && opt_eqb tree_eqb (expr_of a) (expr_of b).

(* a case printed from a form o: the real parser builds exactly [spell o] and the model reads it back as o *)
Definition judge_form (c : case) : bool :=
  match c_form c with
  | None => true
  | Some o =>
      tree_eqb (spell o) (c_tree c) &&
      match run c with Ok (o', w) => oform_eqb o o' && sl_eqb w [] | _ => false end
  end.

(* was the extension word value actually compared? (for the harness' counts) *)
Definition value_checked (c : case) : bool :=
  match c_e2e c, run c with
  | Some e, Ok (o, _) =>
      match expr_of o, e_ext e with
      | Some x, Some _ => match ev (c_env c) (e_addr e) x with Some _ => true | None => false end
      | _, _ => false
      end
  | _, _ => false
  end.

(* bit 0: direct drive disagrees; bit 1: end-to-end field; bit 2: end-to-end extension word;
   bit 3: parser tree <> spell form, or the form is not read back; bit 4: the extension value was compared *)
Definition judge (c : case) : N :=
  ((if judge_direct c then 0 else 1) + 2 * Z.to_N (judge_e2e c) + (if judge_form c then 0 else 8)
   + (if value_checked c then 16 else 0))%N.

