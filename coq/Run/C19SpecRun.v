(* C19: judging observed listings against Spec/Listing.v only (no model): used by the
   model-free search and, through Run/C19Run.v, by the correspondence sweep. *)
From Coq Require Import String Ascii List ZArith NArith Bool.
From Verif Require Import Spec.Listing Run.Show.
Import ListNotations.
Open Scope string_scope.

(* a string given by its bytes: file names that are not UTF-8 reach the listing as they are *)
Fixpoint bstr (l : list N) : string :=
  match l with [] => "" | b :: r => String (ascii_of_N b) (bstr r) end.

Inductive observed := ObsText (t : string) | ObsCrash.

(* one listing case:
   tbl, pm   the implementation's own symbol table dump and prefix -> file map
   truth     the ordinary symbols (file, name, value) in definition order: known to the generator
             by construction
   markers   per label (file, name): the unique bytes planted right after it
   base, img link base and image
   obs       the listing text produced by the implementation *)
Record lcase := LCase {
  c_tbl : list (string * Z); c_pm : list (N * string);
  c_truth : list sym; c_markers : list (string * string * list N);
  c_base : Z; c_img : list N; c_obs : observed }.

Definition prop_listing (c : lcase) : bool :=
  match c_obs c with
  | ObsCrash => false
  | ObsText t =>
      check_listing (c_truth c) t
      && match parse_listing t with
         | Some bs => check_image (c_base c) (c_img c) bs (c_markers c)
         | None => false
         end
  end.

(* --- command line: where the .lst went.
   "beside the output file and named after it with a .lst suffix": same directory, and the
   name is the output name plus ".lst", or the output name with its extension replaced *)
Fixpoint has_char (c : ascii) (s : string) : bool :=
  match s with "" => false | String a r => Ascii.eqb a c || has_char c r end.

(* out = stem ++ "." ++ ext with no '.' and no '/' in ext: Some stem *)
Fixpoint stem_of (out : string) : option string :=
  match out with
  | "" => None
  | String a r =>
      match stem_of r with
      | Some h => Some (String a h)
      | None => if Ascii.eqb a "." && negb (has_char "/" r) then Some "" else None
      end
  end.

Definition beside_b (out lst : string) : bool :=
  String.eqb lst (out ++ ".lst")
  || match stem_of out with Some stem => String.eqb lst (stem ++ ".lst") | None => false end.

(* outfile / emitted / implicit_bin / infile: inputs of the model (unused here)
   out_truth: the first output file as the generator knows it: Some path, or None when the
              output went to stdout or nothing was written;  to_stdout tells which
   obs: path of the .lst file that appeared (None if none) *)
Record ccase := CCase {
  k_outfile : option string; k_emitted : option (string * string); k_implicit : bool;
  k_infile : string; k_out_truth : option string; k_stdout : bool;
  k_obs : option string }.

Definition prop_cli (c : ccase) : bool :=
  match k_out_truth c, k_obs c with
  | Some out, Some l => beside_b out l
  | None, Some l => k_stdout c && String.eqb l "listing.lst"
  | None, None => negb (k_stdout c)
  | Some _, None => false
  end.

Definition spec_listing (c : lcase) : N := code_of true (prop_listing c).
Definition spec_cli (c : ccase) : N := code_of true (prop_cli c).
