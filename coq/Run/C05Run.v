(* evaluation of C05 cases: correspondence (model vs observed, bit 0) and property (Spec vs observed, bit 1).
   A case is an abstract expression tree, the tokens the harness printed for it, the values of the
   symbols and of '.', and what '.dword <text>' gave on the real assembler (charset bk). *)
From Coq Require Import String Ascii List ZArith NArith Bool.
From Verif Require Import Base.Res Spec.ExprTokens Spec.Arith Gen.GenOperators Model.Lexer Model.ExprParse
                          Model.BkCodec Run.Show Run.C05Spec.
Import ListNotations.
Open Scope string_scope.

(* ---- the model's prediction ------------------------------------------------------------------- *)
Inductive predicted := PredValue (v : Z) | PredFailed (ids : list string) | PredOther (why : string).

Definition model_predict (c : case) : predicted :=
  match parse_operand (c_tokens c) with
  | POk t =>
      match meval enc_string (fun s => assoc s (c_syms c)) (c_dot c) t with
      | Ok (v, []) => match dword_of v with Some w => PredValue w | None => PredFailed ["value-out-of-bounds"] end
      | Ok (v, errs) => match dword_of v with Some _ => PredFailed errs | None => PredFailed ("value-out-of-bounds" :: errs) end
      | Err ids => PredFailed ids
      | Crash s => PredOther s
      | OutOfFuel => PredOther "fuel"
      end
  | PCrit id => PredFailed [id]
  | PNo => PredOther "no-match"
  | PCrash s => PredOther s
  | PFuel => PredOther "fuel"
  end.

Definition corr (c : case) : bool :=
  list_eqb token_eqb (print_min (c_tree c)) (c_tokens c) &&
  match model_predict c, c_obs c with
  | PredValue v, ObsValue w => Z.eqb v w
  | PredFailed ids, ObsFailed ids' => same_set ids ids'
  | _, _ => false
  end.

Definition judge (c : case) : N := code_of (corr c) (prop c).
