(* evaluation of C05 cases: correspondence (model vs observed, bit 0) and property (Spec vs observed, bit 1).
   A case is an abstract expression tree, the tokens the harness printed for it, the values of the
   symbols and of '.', and what '.dword <text>' gave on the real assembler (charset bk). *)
From Coq Require Import String Ascii List ZArith NArith Bool.
From Verif Require Import Base.Res Spec.ExprTokens Spec.Arith Gen.GenOperators Model.Lexer Model.ExprParse
                          Model.BkCodec Run.Show Run.C05Spec.
Import ListNotations.
Open Scope string_scope.

(* ---- the model's prediction ------------------------------------------------------------------- *)
(* PredAborted ids more: an exception that compiler.py turns into a report stopped the evaluation of the operand
   after [ids] were reported.  Operands whose value is deferred (forward symbols) are evaluated later than constant
   ones, so reports of sub-expressions to the right of the one that gave up may or may not have been made: [more]
   is everything any sub-expression can report. *)
Inductive predicted := PredValue (v : Z) | PredFailed (ids : list string) | PredAborted (ids more : list string)
                     | PredOther (why : string).

Section Reports.
Variable syms : list (string * Z).
Variable dot : Z.
Definition reports_at (t : ptree) : list string :=
  match meval enc_string (fun s => assoc s syms) dot t with
  | Ok (_, e) => e
  | Err e => e
  | _ => []
  end.
Fixpoint all_reports (t : ptree) : list string :=
  (reports_at t ++
   match t with
   | PInfix _ l r | PCall l r => all_reports l ++ all_reports r
   | PPrefix _ x | PPostfix _ x | PParen _ x => all_reports x
   | _ => []
   end)%list.
End Reports.

Definition predict (tokens : list token) (syms : list (string * Z)) (dot : Z) : predicted :=
  match parse_operand tokens with
  | POk t =>
      match meval enc_string (fun s => assoc s syms) dot t with
      | Ok (v, []) => match dword_of v with Some w => PredValue w | None => PredFailed ["value-out-of-bounds"] end
      | Ok (v, errs) => match dword_of v with Some _ => PredFailed errs | None => PredFailed ("value-out-of-bounds" :: errs) end
      | Err ids => PredAborted ids (all_reports syms dot t)
      | Crash s => PredOther s
      | OutOfFuel => PredOther "fuel"
      end
  | PCrit id => PredFailed [id]
  | PNo => PredOther "no-match"
  | PCrash s => PredOther s
  | PFuel => PredOther "fuel"
  end.

Definition matches (p : predicted) (o : observed) : bool :=
  match p, o with
  | PredValue v, ObsValue w => Z.eqb v w
  | PredFailed ids, ObsFailed ids' => same_set ids ids'
  | PredAborted ids more, ObsFailed ids' => subset ids ids' && subset ids' (ids ++ more)
  | _, _ => false
  end.

Definition model_predict (c : case) : predicted := predict (c_tokens c) (c_syms c) (c_dot c).

Definition corr (c : case) : bool :=
  list_eqb token_eqb (print_min (c_tree c)) (c_tokens c) && matches (model_predict c) (c_obs c).

(* token lists outside the documented language (postfix operators, calls, prefix operators in the
   middle, unclosed brackets ...): the model against the implementation only *)
Record tcase := mk_tcase {
  t_tokens : list token;
  t_syms : list (string * Z);
  t_dot : Z;
  t_obs : observed
}.
Definition judge_tokens (c : tcase) : N :=
  code_of (matches (predict (t_tokens c) (t_syms c) (t_dot c)) (t_obs c)) true.

Definition judge (c : case) : N := code_of (corr c) (prop c).
