(* evaluation of C05 cases: correspondence (model vs observed, bit 0) and property (Spec vs observed, bit 1).
   A case is an abstract expression tree, the tokens the harness printed for it, the values of the
   symbols and of '.', and what '.dword <text>' gave on the real assembler (charset bk). *)
From Coq Require Import String Ascii List ZArith NArith Bool.
From Verif Require Import Base.Res Spec.ExprTokens Spec.Arith Gen.GenOperators Model.Lexer Model.ExprParse
                          Model.BkCodec Run.Show Run.C05Spec.
Import ListNotations.
Open Scope string_scope.

(* ---- the model's prediction ------------------------------------------------------------------- *)
Inductive predicted := PredValue (v : Z) | PredFailed (ids : list string) | PredOther (why : string).

Definition predict (tokens : list token) (syms : list (string * Z)) (dot : Z) : predicted :=
  match parse_operand tokens with
  | POk t =>
      match meval enc_string (fun s => assoc s syms) dot t with
      | Ok (v, []) => match dword_of v with Some w => PredValue w | None => PredFailed ["value-out-of-bounds"] end
      | Ok (v, errs) => match dword_of v with Some _ => PredFailed errs | None => PredFailed ("value-out-of-bounds" :: errs) end
      | Err ids => PredFailed ids
      | Crash s => PredOther s
      | OutOfFuel => PredOther "fuel"
      end
  | PCrit id => PredFailed [id]
  | PNo => PredOther "no-match"
  | PCrash s => PredOther s
  | PFuel => PredOther "fuel"
  end.

Definition matches (p : predicted) (o : observed) : bool :=
  match p, o with
  | PredValue v, ObsValue w => Z.eqb v w
  | PredFailed ids, ObsFailed ids' => same_set ids ids'
  | _, _ => false
  end.

Definition model_predict (c : case) : predicted := predict (c_tokens c) (c_syms c) (c_dot c).

Definition corr (c : case) : bool :=
  list_eqb token_eqb (print_min (c_tree c)) (c_tokens c) && matches (model_predict c) (c_obs c).

(* token lists outside the documented language (postfix operators, calls, prefix operators in the
   middle, unclosed brackets ...): the model against the implementation only *)
Record tcase := mk_tcase {
  t_tokens : list token;
  t_syms : list (string * Z);
  t_dot : Z;
  t_obs : observed
}.
Definition judge_tokens (c : tcase) : N :=
  code_of (matches (predict (t_tokens c) (t_syms c) (t_dot c)) (t_obs c)) true.

Definition judge (c : case) : N := code_of (corr c) (prop c).
