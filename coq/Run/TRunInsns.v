(* judges of tools/t_check.py for Gen/GenPureInsns.v; see Run/TRun.v *)
From Coq Require Import String List ZArith NArith Bool.
From Verif Require Import Base.Res Base.Bytes Gen.GenPure Gen.GenPureInsns Run.Show Run.TRun.
Import ListNotations.
Open Scope Z_scope.

(* ---- insns.py ------------------------------------------------------------------------------ *)
(* (unsigned, len(bit_indexes), target, rel_address, what OffsetOperandStub.encode(..)[0] awaited to) *)
Definition judge_offset (c : bool * nat * Z * Z * res (Z * list string)) : N :=
  let '(u, n, t, rel, impl) := c in
  code (res_eqb (rep_eqb Z.eqb) (offset_fn u n false t rel) impl
        && res_eqb (rep_eqb Z.eqb) (offset_fn u n true t rel) impl).

Definition judge_imm (c : bool * nat * Z * res (Z * list string)) : N :=
  let '(u, n, v, impl) := c in code (res_eqb (rep_eqb Z.eqb) (imm_fn u n v) impl).

(* (deferred?, target, rel_address, the word the lambda packed) *)
Definition judge_rel (c : bool * Z * Z * res Z) : N :=
  let '(d, t, rel, impl) := c in
  code (res_eqb Z.eqb (if d then rel_word_77 t rel else rel_word_67 t rel) impl).

(* (emit_address, lengths of the encodings the stubs returned, rel_address each stub was given) *)
Fixpoint rel_addresses (addr : Z) (sofar : nat) (ks : list nat) : list Z :=
  match ks with
  | [] => []
  | k :: rest => rel_address_of addr sofar :: rel_addresses addr (sofar + k) rest
  end.
Definition judge_rel_address (c : Z * list nat * list Z) : N :=
  let '(addr, ks, impl) := c in code (list_eqb Z.eqb (rel_addresses addr 0 ks) impl).
