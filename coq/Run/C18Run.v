(* evaluation of C18 cases: a nesting of the three context managers run on the real classes *)
From Coq Require Import String List NArith ZArith Bool.
From Verif Require Import Gen.GenReports Gen.GenGState Model.GState Run.Show.
Import ListNotations.
Open Scope Z_scope.

Definition outcome_eqb (a b : outcome) : bool :=
  match a, b with
  | ONormal, ONormal | OReturn, OReturn => true
  | ORaise x, ORaise y => exn_eqb x y
  | _, _ => false
  end.

Record nest_case := mk_nest
  { nc_depth0 : Z                       (* try_compute.depth before (0 in a fresh process) *)
  ; nc_prog : prog
  ; nc_ids : list N                     (* deferred objects / handler instances used, 0..k *)
  ; no_outcome : outcome
  ; no_depth : Z
  ; no_awaiting : list N
  ; no_handlers : list N
  ; no_flags : list bool                (* is_awaiting of the deferred objects nc_ids, afterwards *)
  ; no_latches : list bool              (* is_error_condition of the instances nc_ids (false if never created) *)
  ; no_nry : list N                     (* the objects held by try_compute.not_ready_yet afterwards, latest first *)
  ; no_kc : list N                      (* Awaiting.known_cycles afterwards, latest first *)
  ; no_fcs : list (list N) }.           (* Awaiting.found_cycles_stack afterwards, top first *)

Definition start (c : nest_case) : mstate :=
  mk_mstate (mk_gstate (nc_depth0 c) [] (fun _ => false) [] [] [] []) (fun _ => false).

Definition corr_nest (c : nest_case) : bool :=
  let r := eval (nc_prog c) (start c) in
  outcome_eqb (fst r) (no_outcome c) &&
  Z.eqb (depth (g (snd r))) (no_depth c) &&
  list_eqb N.eqb (awaiting (g (snd r))) (no_awaiting c) &&
  list_eqb N.eqb (handlers (g (snd r))) (no_handlers c) &&
  list_eqb Bool.eqb (map (flags (g (snd r))) (nc_ids c)) (no_flags c) &&
  list_eqb Bool.eqb (map (latches (snd r)) (nc_ids c)) (no_latches c) &&
  list_eqb N.eqb (nry (g (snd r))) (no_nry c) &&
  list_eqb N.eqb (kc (g (snd r))) (no_kc c) &&
  list_eqb (list_eqb N.eqb) (fcs (g (snd r))) (no_fcs c).

(* the property on the observation alone: the module-level state is what it was *)
Definition prop_nest (c : nest_case) : bool :=
  Z.eqb (no_depth c) (nc_depth0 c) &&
  match no_awaiting c, no_handlers c with [], [] => true | _, _ => false end &&
  forallb negb (no_flags c) &&
  match no_kc c, no_fcs c with [], [] => true | _, _ => false end.

Definition judge_nest (c : nest_case) : N := code_of (corr_nest c) (prop_nest c).
