(* evaluation of C17 cases.  A case carries the texts of the files involved, every span of every
   diagnostic the implementation produced (file index, start and end offsets, and the line:column
   pairs the implementation printed for them), and where the fault was planted.
   bit 0: Model/ContextM.v (Context.__repr__) disagrees with a printed line:column (correspondence);
   bit 1: the observation contradicts the property, judged with Spec/LineCol.v only:
          a span is not inside its file, start after end, a non-empty span starts on white space,
          a printed line:column is not the Spec
          position of the offset, or the first span of the first diagnostic is not the planted token. *)
From Coq Require Import List ZArith NArith Bool.
From Verif Require Import Spec.LineCol Model.ContextM Run.Show.
Import ListNotations.
Open Scope Z_scope.

Record ospan := {
  o_file : nat;            (* index into the case's texts; an unknown file name is sent as a large index *)
  o_start : nat; o_end : nat;
  o_sl : Z; o_sc : Z;      (* printed line:col of the start *)
  o_el : Z; o_ec : Z       (* printed line:col of the end *)
}.

Definition pair_eqb (a b : Z * Z) : bool := (fst a =? fst b) && (snd a =? snd b).

Definition span_corr (texts : list (list N)) (s : ospan) : bool :=
  match nth_error texts (o_file s) with
  | Some t => pair_eqb (repr t (o_start s)) (o_sl s, o_sc s) && pair_eqb (repr t (o_end s)) (o_el s, o_ec s)
  | None => true     (* no text to run the model on: the property bit reports it *)
  end.

(* str.strip() == "" for one character *)
Definition blank (c : N) : bool :=
  ((9 <=? c) && (c <=? 13) || (28 <=? c) && (c <=? 32) || (c =? 133) || (c =? 160) || (c =? 5760)
   || (8192 <=? c) && (c <=? 8202) || (c =? 8232) || (c =? 8233) || (c =? 8239) || (c =? 8287) || (c =? 12288))%N.

(* a non-empty span does not start on white space: it starts at the first character of a token *)
Definition starts_on_token (t : list N) (s : ospan) : bool :=
  Nat.eqb (o_start s) (o_end s) ||
  match nth_error t (o_start s) with Some c => negb (blank c) | None => false end.

Definition span_prop (texts : list (list N)) (s : ospan) : bool :=
  match nth_error texts (o_file s) with
  | Some t =>
      Nat.leb (o_start s) (o_end s) && Nat.leb (o_end s) (length t) && starts_on_token t s &&
      pair_eqb (linecol_at t (o_start s)) (o_sl s, o_sc s) &&
      pair_eqb (linecol_at t (o_end s)) (o_el s, o_ec s) &&
      lc_leb (o_sl s, o_sc s) (o_el s, o_ec s)
  | None => false    (* the diagnostic names a file that does not contain the text *)
  end.

(* the leading spans of the first diagnostic are, in this order, the expected locations: the planted
   token first, then the secondary locations the report site passes (file index, start, end if known) *)
Definition expected_span (texts : list (list N)) (e : nat * nat * option nat) (s : ospan) : bool :=
  let '(pfile, poff, pend) := e in
  match nth_error texts pfile with
  | Some t =>
      Nat.eqb (o_file s) pfile && Nat.eqb (o_start s) poff &&
      pair_eqb (linecol_at t poff) (o_sl s, o_sc s) &&
      match pend with Some e' => Nat.eqb (o_end s) e' | None => true end
  | None => false
  end.

Fixpoint planted_prop (texts : list (list N)) (exp : list (nat * nat * option nat)) (spans : list ospan) : bool :=
  match exp, spans with
  | [], _ => true
  | e :: es, s :: ss => expected_span texts e s && planted_prop texts es ss
  | _ :: _, [] => false
  end.

Inductive case :=
(* texts; all spans in report order (the spans of the first diagnostic come first, in the order the
   handler received them); the expected leading locations, the planted token first *)
| CPlanted (texts : list (list N)) (spans : list ospan) (exp : list (nat * nat * option nat))
(* command line, bare format: text of the planted file, planted offset, the line and column printed
   in the 'file:line:col' prefix of the first output line *)
| CCli (text : list N) (poff : nat) (line col : Z).

Definition judge (c : case) : N :=
  match c with
  | CPlanted texts spans exp =>
      code_of (forallb (span_corr texts) spans)
              (forallb (span_prop texts) spans && negb (Nat.eqb (length exp) 0) && planted_prop texts exp spans)
  | CCli text poff line col =>
      code_of (pair_eqb (repr text poff) (line, col))
              (Nat.leb poff (length text) && pair_eqb (linecol_at text poff) (line, col))
  end.

(* diagnosis helper used by the search: Spec position of an offset *)
Definition spec_pos (text : list N) (off : nat) : Z * Z := linecol_at text off.
