(* Judge for tools/p_corr.py: the character-level parser model against pdpy11.parser.parse.
   A case carries the source text (code points) and the hash of the canonical serialisation of what the
   implementation produced (tree with every ctx_start/ctx_end offset + diagnostics with identifiers and spans, or
   the critical outcome).  The same serialisation is computed here from the model's result.
   Answer: bit 0 = model and implementation differ;  2 / 4 are added when the model itself ends in Crash / OutOfFuel
   (informative only; they imply bit 0 unless the implementation also failed that way, which the harness reports
   separately). *)
From Coq Require Import String Ascii List ZArith NArith Bool.
From Verif Require Import Gen.GenParserTables Model.StmtParse.
Import ListNotations.
Open Scope N_scope.

Definition ser_str (s : list N) (acc : list N) : list N := len s :: s ++ acc.
Definition ser_bool (b : bool) (acc : list N) : list N := (if b then 1 else 0) :: acc.
Definition ser_Z (z : Z) (acc : list N) : list N := (if (z <? 0)%Z then 1 else 0) :: Z.abs_N z :: acc.
Definition ser_id (s : string) (acc : list N) : list N := ser_str (map N_of_ascii (list_ascii_of_string s)) acc.

Fixpoint ser (n : node) (acc : list N) : list N :=
  let fix ser_list (l : list node) (acc : list N) : list N :=
    match l with [] => acc | x :: r => ser x (ser_list r acc) end in
  match n with
  | Symbol s e name lbl => 1 :: s :: e :: ser_str name (ser_bool lbl acc)
  | Number s e repr v vl ib => 2 :: s :: e :: ser_str repr (ser_Z v (ser_bool vl (ser_bool ib acc)))
  | CharLit s e repr str => 3 :: s :: e :: ser_str repr (ser_str str acc)
  | IPtr s e => 4 :: s :: e :: acc
  | Paren s e x o c => 5 :: s :: e :: ser_str o (ser_str c (ser x acc))
  | Infix s e op l r => 6 :: s :: e :: ser_str op (ser l (ser r acc))
  | Prefix s e op x => 7 :: s :: e :: ser_str op (ser x acc)
  | Postfix s e op x => 8 :: s :: e :: ser_str op (ser x acc)
  | QuotedStr s e q str => 9 :: s :: e :: ser_str q (ser_str str acc)
  | AngleChar s e x => 10 :: s :: e :: ser x acc
  | Concat s e l => 11 :: s :: e :: N.of_nat (length l) :: ser_list l acc
  | Insn s e nm ops => 12 :: s :: e :: ser nm (N.of_nat (length ops) :: ser_list ops acc)
  | Words s e ws => 13 :: s :: e :: N.of_nat (length ws) :: ser_list ws acc
  | Label s e nm ext => 14 :: s :: e :: ser_str nm (ser_bool ext acc)
  | Assign s e t v ext => 15 :: s :: e :: ser t (ser v (ser_bool ext acc))
  | Block s e b l => 16 :: s :: e :: match b with
                                      | None => 0 :: N.of_nat (length l) :: ser_list l acc
                                      | Some p => 1 :: p :: N.of_nat (length l) :: ser_list l acc
                                      end
  end.

Fixpoint ser_spans (l : list span) (acc : list N) : list N :=
  match l with [] => acc | (a, b) :: r => a :: b :: ser_spans r acc end.
Fixpoint ser_diags (l : list diag) (acc : list N) : list N :=
  match l with
  | [] => acc
  | (sv, id, spans) :: r => sv :: ser_id id (N.of_nat (length spans) :: ser_spans spans (ser_diags r acc))
  end.

Definition ser_result (r : presult) : list N :=
  match r with
  | POk b d => 1 :: ser b (N.of_nat (length d) :: ser_diags d [])
  | PCritical d => 2 :: N.of_nat (length d) :: ser_diags d []
  | PCrash _ => [3]
  | POutOfFuel => [4]
  end.

Definition hash_p : N := 2305843009213693951.   (* 2^61 - 1 *)
Fixpoint hash_list (l : list N) (h : N) : N :=
  match l with
  | [] => h
  | c :: r => hash_list r ((h * 1000003 + (c mod hash_p) + 1) mod hash_p)
  end.

(* fuel used by the runs: far above the call depth of any case *)
Definition run_fuel (text : list N) : nat := (8 * (length text + 16))%nat.
Definition run (text : list N) : presult := parse_file (run_fuel text) text.

Definition judge (c : list N * N) : N :=
  let r := run (fst c) in
  (if hash_list (ser_result r) 7 =? snd c then 0 else 1)
  + match r with PCrash _ => 2 | POutOfFuel => 4 | _ => 0 end.

(* for the investigation of a disagreement: the model's serialisation itself *)
Definition show (c : list N * N) : list N := ser_result (run (fst c)).
