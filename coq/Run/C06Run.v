(* evaluation of C06 cases: bit 0 = the model (Gen + Model/Directives) disagrees with the observed
   behaviour; bit 1 = the observed behaviour contradicts the property (Run/C06Ref.v: Spec/DataSpec and the
   reference arithmetic only -- never the hand model, never Gen). *)
From Coq Require Import String List ZArith NArith Bool.
From Verif Require Import Base.Res Gen.GenGetAsInt Gen.GenMeta Model.Directives Model.DirectivesSeq Spec.DataSpec Spec.DataBlockSpec Run.Show Run.C06Ref.
Import ListNotations.
Open Scope string_scope.
Open Scope list_scope.
Open Scope Z_scope.

Definition sev_of (s : rsev) : sev := match s with RE => E | RW => W end.
Definition sev_eqb (a b : sev) : bool := match a, b with E, E => true | W, W => true | _, _ => false end.
Definition diag_eqb (a : diag) (b : rdiag) : bool := sev_eqb (fst a) (sev_of (fst b)) && str_eqb (snd a) (snd b).
Fixpoint diags_eqb (a : list diag) (b : list rdiag) : bool :=
  match a, b with
  | [], [] => true
  | x :: xs, y :: ys => diag_eqb x y && diags_eqb xs ys
  | _, _ => false
  end.

Definition corr_gai b u d v (o : gai_obs) : bool :=
  match get_as_int_raw b u d v, o with
  | GaiRet r, GRet r' => r =? r'
  | GaiErrRet i r, GErrRet i' r' => str_eqb i i' && (r =? r')
  | GaiErrRaise i, GErrRaise i' => str_eqb i i'
  | GaiCrash _, GOther => true
  | _, _ => false
  end.

(* the metacommand table seen by introspection against Gen/GenMeta.v *)
Definition sizes_of (m : meta) (ns : list Z) : list (option Z) :=
  map (fun n => match m_size m with Some f => Some (f n) | None => None end) ns.

Definition corr_meta (name : string) (aliases : list string) (raw : bool) (hints : list string)
           (mn : Z) (mx : option Z) (sizes : list (option Z)) : bool :=
  match find_meta name with
  | Some m =>
      str_eqb (m_name m) name && list_eqb str_eqb (m_aliases m) aliases && Bool.eqb (m_raw m) raw
      && list_eqb str_eqb (map snd (m_params m)) hints && (m_min m =? mn) && optz_eqb (m_max m) mx
      && list_eqb optz_eqb (sizes_of m (map Z.of_nat (seq 0 (length sizes)))) sizes
      && forallb (fun a => match find_meta a with Some m' => str_eqb (m_name m') name | None => false end) aliases
  | None => false
  end.

Definition dir_of (d : rdir) : directive :=
  match d with
  | RMeta name ops => DMeta name ops
  | RAscii z ops => DAscii z (map (map chunk_of) ops)
  | RWordList ws => DWordList ws
  end.

Definition m_has_error (ds : list diag) : bool := existsb is_error ds.

(* the model of a fill with an absurd count that is NOT refused would build the fill inside coqc: such a count
   is only cooked; if cooking lets it through, the model's outcome is reported as not evaluable (= a crash) *)
Definition guarded_emit (enc : list N -> option (list Z)) (d : directive) (addr : Z) : out :=
  match d with
  | DMeta name ops =>
      if existsb (fun o => 1048576 <=? Z.abs (snd o)) ops
         && (str_eqb name ".align" || str_eqb name ".blkb" || str_eqb name ".blkw")
      then match find_meta name with
           | Some m => match cook (m_params m) 0 (map snd ops) with
                       | Ok _ => Crashed "fill too large to evaluate"
                       | _ => emit enc d addr
                       end
           | None => emit enc d addr
           end
      else emit enc d addr
  | _ => emit enc d addr
  end.

Definition corr_dir (enc : list N -> option (list Z)) (d : directive) (addr : Z) (ann : option (option Z)) (o : dir_obs) : bool :=
  match ann with Some a => optz_eqb (announced d) a | None => true end &&
  match guarded_emit enc d addr, o with
  | Out ds bs, ROut ds' bs' => diags_eqb ds ds' && zs_eqb bs bs'
  | Raised ds, RRaised ds' => diags_eqb ds ds'
  | Out ds _, RFailed ds' => m_has_error ds && diags_eqb ds ds'
  | Raised ds, RFailed ds' => diags_eqb ds ds'
  | Crashed _, RCrash => true
  | _, _ => false
  end.

Definition corr_scan (q : N) (text : list N) (o : scan_obs) : bool :=
  match unescape q text, o with
  | ScanOk v ds r, SOk v' ds' r' => ns_eqb v (ns v') && list_eqb str_eqb ds ds' && ns_eqb r (ns r')
  | ScanUnterminated ds, SUnterminated ds' => list_eqb str_eqb ds ds'
  | ScanCrash _ ds, SCrash ds' => list_eqb str_eqb ds ds'
  | _, _ => false
  end.

(* Python's character classes, exhaustively listed by the harness over all code points, against the model's
   [py_space] / [esc_lower] on 0 .. 12399 (both are constant above 12288: Proofs/DirectivesEscape.v) *)
Definition esc_class (c : N) : option N :=
  let l := esc_lower c in
  if ((l =? 110) || (l =? 114) || (l =? 116) || (l =? 120) || (l =? 92) || (l =? 34) || (l =? 39) || (l =? 47) || (l =? 10))%N
  then Some l else None.
Fixpoint lookup_n (c : N) (m : list (N * N)) : option N :=
  match m with [] => None | (k, v) :: rest => if (k =? c)%N then Some v else lookup_n c rest end.
Definition corr_class (spaces : list N) (lowers : list (N * N)) : bool :=
  forallb (fun c => (c <? 12400)%N) spaces && forallb (fun kv => (fst kv <? 12400)%N) lowers &&
  forallb (fun c => Bool.eqb (py_space c) (existsb (N.eqb c) spaces) && opt_eqb N.eqb (esc_class c) (lookup_n c lowers))
          (map N.of_nat (seq 0 (N.to_nat 12400%N))).

(* literal operands and sequences *)
Definition operand_of (o : roperand) : operand := match o with RVal v => OVal v | RLit cs => OLit (ns cs) end.
Definition xdir_of (d : rdirl) : xdirective :=
  match d with RPlain d => XD (dir_of d) | RLitDir name ops => XLit name (map operand_of ops) end.
Definition xitem_of (it : ritem) : xitem :=
  match it with ROne d => XOne (xdir_of d) | RRepeat n body => XRepeat n (map xdir_of body) end.

Definition corr_out (m : out) (o : dir_obs) : bool :=
  match m, o with
  | Out ds bs, ROut ds' bs' => diags_eqb ds ds' && zs_eqb bs bs'
  | Raised ds, RRaised ds' => diags_eqb ds ds'
  | Out ds _, RFailed ds' => m_has_error ds && diags_eqb ds ds'
  | Raised ds, RFailed ds' => diags_eqb ds ds'
  | Crashed _, RCrash => true
  | _, _ => false
  end.

Definition corr_dirl (enc : list N -> option (list Z)) (name : string) (ops : list operand) (addr : Z)
           (ann : option (option Z)) (o : dir_obs) : bool :=
  match ann with Some a => optz_eqb (announcedx enc (XLit name ops)) a | None => true end &&
  corr_out (emit_lit enc name ops addr) o.

(* a whole program: the image when nothing is refused, else the fact of the refusal (the order in which
   eagerly and lazily evaluated statements report is not compared) *)
Definition corr_items (enc : list N -> option (list Z)) (its : list xitem) (addr : Z) (o : dir_obs) : bool :=
  match fst (items_run enc its addr), o with
  | Out ds bs, ROut ds' bs' => negb (m_has_error ds) && negb (has_error ds') && zs_eqb bs bs'
  | Out ds _, RFailed ds' => m_has_error ds && has_error ds'
  | Raised ds, RFailed ds' => m_has_error ds && has_error ds'
  | Crashed _, RCrash => true
  | _, _ => false
  end.

Definition corr_case (c : case) : bool :=
  match c with
  | CGai b u d v o => corr_gai b u d v o
  | CMeta name aliases raw hints mn mx sizes => corr_meta name aliases raw hints mn mx sizes
  | CDir bk d addr oracle ann o => corr_dir (if bk then bk_enc else oracle_of oracle) (dir_of d) addr ann o
  | CScan q text _ o => corr_scan (Z.to_N q) (ns text) o
  | CClass spaces lowers => corr_class (ns spaces) (map (fun kv => (Z.to_N (fst kv), Z.to_N (snd kv))) lowers)
  | CDirL bk name ops addr oracle ann o =>
      corr_dirl (if bk then bk_enc else oracle_of oracle) name (map operand_of ops) addr ann o
  | CItems bk its addr oracle o => corr_items (if bk then bk_enc else oracle_of oracle) (map xitem_of its) addr o
  end.

Definition judge (c : case) : N := code_of (corr_case c) (prop_case c).
