(* evaluation of C13 cases: correspondence (model vs observed) on top of the oracle of
   Run/C13Oracle.v (Spec readers on the observed bytes).  Imports Model/Spec/Gen/Base only. *)
From Coq Require Import String Ascii List ZArith NArith Bool.
From Verif Require Import Base.Res Gen.GenBkWav Model.Formats Model.BkWav Model.OutPath
  Spec.Riff Spec.BkTape Spec.BinFile Run.Show Run.C13Oracle.
Import ListNotations.
Open Scope list_scope.
Open Scope Z_scope.

Definition format_of (k : okind) : format :=
  match k with KBin => FmtBin | KRaw => FmtRaw | KWav => FmtBkWav | KTurbo => FmtBkTurboWav end.
Definition kind_of (f : format) : okind :=
  match f with FmtBin => KBin | FmtRaw => KRaw | FmtBkWav => KWav | FmtBkTurboWav => KTurbo end.

(* ------------------------------------------------------------------ file_formats[...] cases *)
Definition model_ocase (c : ocase) : res (list Z) :=
  file_format (format_of (oc_kind c)) (oc_base c) (expand_rep (oc_code c)) (oc_name c).

Definition corr_ocase (c : ocase) : bool :=
  match oc_obs c, model_ocase c with
  | Some r, Ok l => zlist_eqb l (expand_rep r)
  | None, Crash _ => true
  | _, _ => false
  end.

Definition judge_format (c : ocase) : N := code_of (corr_ocase c) (prop_ocase c).

(* large outputs: the case carries the hash of the implementation's bytes in place of the
   bytes ([oc_obs] is ignored).  The Spec readers then run on the model's bytes, which stand
   for the implementation's exactly when the hashes agree; otherwise only the disagreement is
   reported and the harness resubmits the case with the bytes themselves. *)
Definition judge_hash (ch : ocase * (Z * Z * Z * Z)) : N :=
  let c := fst ch in
  match model_ocase c with
  | Ok l =>
      let same := hash_eqb (hash l) (snd ch) in
      code_of same (if same
                    then prop_content (oc_kind c) (oc_base c) (expand_rep (oc_code c)) (name16 (oc_name c)) l
                    else true)
  | _ => code_of false true
  end.

(* ------------------------------------------------------------------ os.path / resolve_relative_path cases *)
Definition str_of (x : string) : str := list_ascii_of_string x.

(* (rel, base file, observed resolve_relative_path, observed dirname base, observed normpath rel) *)
Definition judge_resolve (c : string * string * string * string * string) : N :=
  match c with (rel, base, o_res, o_dir, o_norm) =>
    code_of (str_eqb (resolve_relative_path (str_of rel) (str_of base)) (str_of o_res)
             && str_eqb (dirname (str_of base)) (str_of o_dir)
             && str_eqb (normpath (str_of rel)) (str_of o_norm)) true
  end.

(* ------------------------------------------------------------------ make_xxx directive cases *)
Definition directive_of (d : odir) : directive :=
  match d with DBin => MakeBin | DRom => MakeBk0010Rom | DRaw => MakeRaw | DWav => MakeWav | DTurbo => MakeTurboWav end.

Definition corr_odcase (c : odcase) : bool :=
  let e := emit_directive (directive_of (od_dir c)) (option_map str_of (od_path c))
                          (option_map str_of (od_tape c)) (str_of (od_filename c)) in
  okind_eqb (kind_of (e_format e)) (od_obs_kind c) && str_eqb (e_path e) (str_of (od_obs_path c))
  && opt_eqb zlist_eqb (e_name e) (od_obs_name c) && Bool.eqb (e_error e) (od_obs_error c).

Definition judge_directive (c : odcase) : N := code_of (corr_odcase c) (prop_odcase c).

(* tape names under an output charset: the bytes-level part of add_emitted_bk_wav (length check,
   truncation, padding) on the encoded name; an unencodable name is recorded as 16 spaces *)
Definition corr_otcase (c : otcase) : bool :=
  match ot_enc c with
  | Some enc => let (padded, err) := pad_name enc in
                opt_eqb zlist_eqb (Some padded) (ot_obs_name c) && Bool.eqb err (ot_obs_long c)
                && negb (ot_obs_char c) && Bool.eqb (ot_obs_failed c) err
  | None => opt_eqb zlist_eqb (Some (fst (pad_name []))) (ot_obs_name c) && negb (ot_obs_long c)
            && ot_obs_char c && ot_obs_failed c
  end.

Definition judge_tape (c : otcase) : N := code_of (corr_otcase c) (prop_otcase c).

(* ------------------------------------------------------------------ command-line cases *)
Fixpoint assoc_str {A} (k : str) (m : list (str * A)) : option A :=
  match m with
  | [] => None
  | (k', v) :: r => if str_eqb k' k then Some v else assoc_str k r
  end.

(* later writes to a path replace earlier ones *)
Fixpoint dedupe_last {A} (m : list (str * A)) : list (str * A) :=
  match m with
  | [] => []
  | (k, v) :: r => match assoc_str k r with Some _ => dedupe_last r | None => (k, v) :: dedupe_last r end
  end.

Definition same_files (pred obs : list (str * list Z)) : bool :=
  Nat.eqb (length pred) (length obs)
  && forallb (fun kv => match assoc_str (fst kv) obs with Some o => zlist_eqb (snd kv) o | None => false end) pred.

Definition corr_ocli (c : ocli) : bool :=
  let cwd := str_of (cc_cwd c) in
  let emitted := flat_map (fun src =>
      let fname := fold_left (fun name op => included_name (str_of op) name) (snd (fst src))
                             (source_name cwd (str_of (fst (fst src)))) in
      map (fun d => match d with (k, p, t) =>
             emit_directive (directive_of k) (option_map str_of p) (option_map str_of t) fname end) (snd src))
      (cc_sources c) in
  let first := match cc_sources c with src :: _ => source_name cwd (str_of (fst (fst src))) | [] => [] end in
  let obs := map (fun kv => (str_of (fst kv), expand_rep (snd kv))) (cc_obs_files c) in
  let obs_out := expand_rep (cc_obs_stdout c) in
  match cli_outputs first emitted (option_map str_of (cc_outfile c)) (cc_implicit_bin c) with
  | None => negb (cc_obs_ok c) && match obs with [] => true | _ => false end
            && match cc_obs_lst c with None => true | Some _ => false end
  | Some outs =>
      let content o := file_format (o_format o) (cc_base c) (cc_code c) (o_tape_name o) in
      let files := flat_map (fun o => match o_dest o, content o with
                                      | ToFile p, Ok l => [(abspath cwd p, l)]
                                      | _, _ => [] end) outs in
      let stdout := flat_map (fun o => match o_dest o, content o with
                                       | ToStdout, Ok l => l
                                       | _, _ => [] end) outs in
      let listing := if cc_lst c
                     then option_map (abspath cwd) (cli_listing first emitted (option_map str_of (cc_outfile c)) (cc_implicit_bin c))
                     else None in
      cc_obs_ok c && forallb (fun o => is_ok (content o)) outs
      && same_files (dedupe_last files) obs && zlist_eqb stdout obs_out
      && opt_eqb str_eqb listing (option_map str_of (cc_obs_lst c))
  end.

Definition judge_cli (c : ocli) : N := code_of (corr_ocli c) (prop_ocli c).

(* ------------------------------------------------------------------ one case type for the generated files *)
Inductive anycase :=
| CFormat (c : ocase)
| CHash (c : ocase) (h : Z * Z * Z * Z)
| CResolve (c : string * string * string * string * string)
| CDirective (c : odcase)
| CTape (c : otcase)
| CCli (c : ocli).

Definition judge (c : anycase) : N :=
  match c with
  | CFormat c => judge_format c
  | CHash c h => judge_hash (c, h)
  | CResolve c => judge_resolve c
  | CDirective c => judge_directive c
  | CTape c => judge_tape c
  | CCli c => judge_cli c
  end.
