(* evaluation of C09 cases.
   A case carries: the abstract programme (Model/Reloc items), the words that hold an absolute
   address as known BY CONSTRUCTION of the source text (offset, coefficient of the base), and what
   the real assembler produced at each link base.
   bit 0 (correspondence): Model.Reloc.image differs from the observed outcome at some base, or
                           the model's abs_words differ from the list known by construction.
   bit 1 (property, model-free): two successful observed images break the relocation law. *)
From Coq Require Import String List ZArith Bool.
From Verif Require Import Base.Res Model.Poly Model.Reloc Run.Show.
Import ListNotations.
Open Scope Z_scope.

Inductive observed := ObsOk (bs : list Z) | ObsFail (ids : list string) | ObsOther.

(* every error the model finds at this base, past the first one (sizes are known, so positions go on).
   The implementation evaluates statements in an order of its own (what can be computed while compiling
   comes first, the rest at the end), stops at the first error that raises, and after an `odd-address`
   error goes on with every later address shifted by the inserted byte; so on a failing base the
   comparison is: it failed, and it shares an error identifier with the model. *)
Fixpoint errors_from (b pos : Z) (p : list item) : list string :=
  match p with
  | [] => []
  | it :: r => (match item_bytes b pos it with Err ids => ids | _ => [] end)
               ++ errors_from b (pos + item_size b pos it) r
  end.

Definition corr_one (p : list item) (bo : Z * observed) : bool :=
  match image (fst bo) p, snd bo with
  | Ok bs, ObsOk bs' => list_eqb Z.eqb bs bs'
  | Err _, ObsFail ids' =>
      existsb (fun i => existsb (String.eqb i) (errors_from (fst bo) 0 p)) ids'
  | _, _ => false
  end.

Definition pair_eqb (a b : Z * Z) : bool := (fst a =? fst b) && (snd a =? snd b).

Definition corr_case (p : list item) (aw : list (Z * Z)) (obs : list (Z * observed)) : bool :=
  forallb (corr_one p) obs &&
  forallb (fun bo => match snd bo with
                     | ObsOk _ => list_eqb pair_eqb (abs_words (fst bo) p) aw
                     | _ => true end) obs.

(* ---- the law on two observed images, with no reference to the model ---- *)
Definition byte_at (img : list Z) (k : Z) : Z := nth (Z.to_nat k) img (-1).
Definition word_at (img : list Z) (k : Z) : Z := byte_at img k + 256 * byte_at img (k + 1).

Fixpoint coef_at (aw : list (Z * Z)) (k : Z) : option Z :=
  match aw with
  | [] => None
  | (o, c) :: r => if o =? k then Some c else coef_at r k
  end.
Definition in_abs_word (aw : list (Z * Z)) (k : Z) : bool :=
  existsb (fun oc => (fst oc =? k) || (fst oc + 1 =? k)) aw.

(* one linear walk over both images; [aw] is sorted by offset and must be used up *)
Fixpoint law_walk (i1 i2 : list Z) (pos : Z) (aw : list (Z * Z)) (d : Z) : bool :=
  match i1, i2 with
  | [], [] => match aw with [] => true | _ => false end
  | x1 :: r1, x2 :: r2 =>
      match aw with
      | (o, c) :: aw' =>
          if o =? pos then
            match r1, r2 with
            | y1 :: r1', y2 :: r2' =>
                (x2 + 256 * y2 =? (x1 + 256 * y1 + c * d) mod 65536) && law_walk r1' r2' (pos + 2) aw' d
            | _, _ => false
            end
          else (x1 =? x2) && law_walk r1 r2 (pos + 1) aw d
      | [] => (x1 =? x2) && law_walk r1 r2 (pos + 1) [] d
      end
  | _, _ => false
  end.

Definition law_pair (aw : list (Z * Z)) (b1 : Z) (i1 : list Z) (b2 : Z) (i2 : list Z) : bool :=
  law_walk i1 i2 0 aw (b2 - b1).

Fixpoint law_all (aw : list (Z * Z)) (obs : list (Z * observed)) : bool :=
  match obs with
  | [] => true
  | (b1, ObsOk i1) :: r =>
      forallb (fun bo => match snd bo with ObsOk i2 => law_pair aw b1 i1 (fst bo) i2 | _ => true end) r
      && law_all aw r
  | _ :: r => law_all aw r
  end.

Definition case := (list item * list (Z * Z) * list (Z * observed))%type.
Definition judge (c : case) : N :=
  let '(p, aw, obs) := c in code_of (corr_case p aw obs) (law_all aw obs).

(* programs with `.include`d files (ordinary, or overlays that set their own origin): judged by the law alone *)
Definition law_case := (list (Z * Z) * list (Z * observed))%type.
Definition judge_law (c : law_case) : N := code_of true (law_all (fst c) (snd c)).
