(* judging functions for the C02 correspondence (hook trace of real runs) *)
From Coq Require Import List ZArith NArith Bool.
From Verif Require Import Model.Block Run.Show.
Import ListNotations.
Open Scope Z_scope.

(* one compile_block invocation as observed through the hook:
   start address, per statement (ready, announced advance if deferred and sized, bytes produced, address given),
   address after the last statement *)
Definition obs_block := (Z * list (bool * option Z * Z * Z) * Z)%type.

Fixpoint prefix_addrs (a : Z) (ns : list Z) : list Z :=
  match ns with [] => [a] | n :: rest => a :: prefix_addrs (a + n) rest end.

Definition judge_block (b : obs_block) : N :=
  let '(start, recs, endaddr) := b in
  let model := flat_block_addrs start (map (fun e => match e with (r, an, n, _) => (r, an, n) end) recs) in
  let observed := map (fun e => match e with (_, _, _, a) => a end) recs ++ [endaddr] in
  let corr := list_eqb Z.eqb model observed in
  (* property, model-free: announced = produced, and every address = start + bytes before *)
  let cons := forallb (fun e => match e with (r, an, n, _) =>
                 r || match an with Some k => k =? n | None => true end end) recs in
  let ideal := prefix_addrs start (map (fun e => match e with (_, _, n, _) => n end) recs) in
  let prop := cons && list_eqb Z.eqb ideal observed in
  code_of corr prop.

(* image placement: the bytes found in the image at (addr - base) are the statement's bytes *)
Definition chunk_at (image : list Z) (off : Z) (bs : list Z) : bool :=
  (0 <=? off) && list_eqb Z.eqb (firstn (length bs) (skipn (Z.to_nat off) image)) bs.

Definition judge_image (c : Z * list Z * list (Z * list Z)) : N :=
  let '(base, image, chunks) := c in
  let prop := forallb (fun e => chunk_at image (fst e - base) (snd e)) chunks in
  code_of true prop.

(* tiling: the leaf statements (everything except .repeat/.include parents), ordered by address,
   cover the image exactly once: first at base, each next where the previous ended, last ends at base+len *)
Fixpoint tiles (a : Z) (l : list (Z * Z)) : option Z :=
  match l with
  | [] => Some a
  | (a', n) :: rest => if (a' =? a) && (0 <=? n) then tiles (a + n) rest else None
  end.
Definition judge_tiling (c : Z * Z * list (Z * Z)) : N :=
  let '(base, len, leaves) := c in
  let prop := match tiles base leaves with Some e => e =? base + len | None => false end in
  code_of true prop.
