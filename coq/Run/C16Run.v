(* Run/C16Run.v -- judging functions for the generated C16 cases (imports no proofs).
   code bit 0: a model disagrees with what the implementation did;
   code bit 1: the two observed images (program / transformed program) differ, i.e. the real code
               contradicts the property on this input. *)
From Coq Require Import List ZArith NArith Bool String.
From Verif Require Import Base.Res Model.TreeCache Model.Structure Run.Show.
From Verif Require Gen.GenTreeCachePins.
Import ListNotations.
Open Scope Z_scope.

(* what impl.assemble observed: the image, a failed build, anything else (crash / hang) *)
Inductive obs := ObsOk (bs : list Z) | ObsFailed | ObsOther.

Definition obs_eqb (a b : obs) : bool :=
  match a, b with
  | ObsOk x, ObsOk y => list_eqb Z.eqb x y
  | ObsFailed, ObsFailed => true
  | _, _ => false
  end.

(* ---- '.repeat' ------------------------------------------------------------------------------ *)
Definition out_obs (o : TreeCache.outcome) : obs :=
  match o with
  | OOk bs => ObsOk bs
  | OFailed => ObsFailed
  | _ => ObsOther
  end.

Definition repeat_fuel : nat := 6.

(* env, address of the '.repeat', count expression, body, value of the count,
   observed bytes of the repeat (slice of the image) and of its textual unrolling *)
Definition rcase := ((string -> option Z) * Z * tree * list item * nat * obs * obs)%type.

Definition model_repeat (c : rcase) : obs :=
  let '(env, a, cnt, body, n, o1, o2) := c in
  out_obs (outcome_of (compile_block code_budget repeat_fuel env [IRepeat cnt body] a 0)).
Definition model_unrolled (c : rcase) : obs :=
  let '(env, a, cnt, body, n, o1, o2) := c in
  out_obs (outcome_of (unrolled code_budget repeat_fuel env n body a 0)).

Definition judge_repeat (c : rcase) : N :=
  let '(env, a, cnt, body, n, o1, o2) := c in
  code_of (obs_eqb (model_repeat c) o1 && obs_eqb (model_unrolled c) o2) (obs_eqb o1 o2).

(* ---- files: link / include / insert / .end / .once ------------------------------------------- *)
Definition table (l : list (nat * list (stmt plain))) : fid -> list (stmt plain) :=
  fun f => match find (fun p => Nat.eqb (fst p) f) l with
           | Some p => snd p
           | None => []
           end.

(* one level for the linked file + MAX_INCLUDE_DEPTH nested '.include's: the code refuses the next
   level with 'recursive-include' (commit 83e4c6e) exactly where the model runs out of this fuel *)
Definition struct_fuel : nat := S GenTreeCachePins.max_include_depth.

Definition res_obs (r : res (list Z)) : obs :=
  match r with
  | Ok bs => ObsOk bs
  | Err _ => ObsFailed
  | OutOfFuel => ObsFailed          (* nesting deeper than MAX_INCLUDE_DEPTH: refused *)
  | _ => ObsOther
  end.

Definition model_files (l : list (nat * list (stmt plain))) (ids : list nat) (base : Z) : obs :=
  res_obs (image (link plain emit_plain (table l) struct_fuel ids base [])).

(* program, its transformed version, base, the two observed images *)
Definition scase := (list (nat * list (stmt plain)) * list nat * list (nat * list (stmt plain)) * list nat * Z * obs * obs)%type.

Definition judge_files (c : scase) : N :=
  let '(l1, ids1, l2, ids2, base, o1, o2) := c in
  code_of (obs_eqb (model_files l1 ids1 base) o1 && obs_eqb (model_files l2 ids2 base) o2) (obs_eqb o1 o2).

(* ---- insert_file by name: sources with [SInsertAt], blobs keyed by (including file, name) ------ *)
Definition src_table (l : list (nat * list (sstmt plain))) : fid -> list (sstmt plain) :=
  fun f => match find (fun p => Nat.eqb (fst p) f) l with
           | Some p => snd p
           | None => []
           end.
Definition blob_of (l : list (nat * nat * list Z)) : fid -> nat -> list Z :=
  fun f nm => match find (fun p => Nat.eqb (fst (fst p)) f && Nat.eqb (snd (fst p)) nm) l with
              | Some p => snd p
              | None => []
              end.
Definition model_src (blobs : list (nat * nat * list Z)) (l : list (nat * list (sstmt plain))) (ids : list nat) (base : Z) : obs :=
  res_obs (image (link plain emit_plain (elab_table plain (blob_of blobs) (src_table l)) struct_fuel ids base [])).

(* blobs, program with inserts by name, the program with each insert written as its '.byte' data, base, observations *)
Definition icase := (list (nat * nat * list Z) * list (nat * list (sstmt plain)) * list (nat * list (sstmt plain)) * list nat * Z * obs * obs)%type.
Definition judge_inserts (c : icase) : N :=
  let '(blobs, l1, l2, ids, base, o1, o2) := c in
  code_of (obs_eqb (model_src blobs l1 ids base) o1 && obs_eqb (model_src blobs l2 ids base) o2) (obs_eqb o1 o2).
