(* judges of tools/t_check.py for Gen/GenPureDirectives.v; see Run/TRun.v *)
From Coq Require Import String List ZArith NArith Bool.
From Verif Require Import Base.Res Base.Bytes Gen.GenPure Gen.GenPureDirectives Run.Show Run.TRun.
Import ListNotations.
Open Scope list_scope.
Open Scope Z_scope.

Definition bytes_rep_eqb := rep_eqb (list_eqb Z.eqb).

(* (emit_address, operand, bytes returned by dword(state, operand) and identifiers reported) *)
Definition judge_dword (c : Z * Z * res (list Z * list string)) : N :=
  let '(addr, v, impl) := c in
  code (res_eqb bytes_rep_eqb (do p <- dword_prefix addr; do e <- encode_i32 v; Ok (fst p ++ e, snd p)) impl).

(* (emit_address, operand, bytes returned by word(state, operand) and identifiers reported) *)
Definition judge_word (c : Z * Z * res (list Z * list string)) : N :=
  let '(addr, v, impl) := c in
  code (res_eqb bytes_rep_eqb (do p <- word_prefix addr; do e <- pack_H v; Ok (fst p ++ e, snd p)) impl).

(* (emit_address, the words, announced size, bytes the deferred function returned and identifiers reported) *)
Definition judge_word_list (c : Z * list Z * Z * res (list Z * list string)) : N :=
  let '(addr, ws, size, impl) := c in
  code (Z.eqb (word_list_size (length ws)) size &&
        res_eqb bytes_rep_eqb (do p <- word_list_prefix addr; do e <- rmap (@concat Z) (mapM pack_H ws); Ok (fst p ++ e, snd p)) impl).
