(* judging functions for the R correspondence (tools/r_corr.py): the reference assembler Model/Asm.v
   evaluated on abstract programs next to what the implementation produced for the same source.
   Imports Model / Spec / Base only. *)
From Coq Require Import ZArith List String Ascii Bool NArith.
From Verif Require Import Base.Res Spec.PDP11 Spec.Arith Model.Insns Model.Directives Model.Asm Model.AsmT Model.AsmRel Run.Show.
From Verif Require Spec.DataSpec Model.Rad50.
Import ListNotations.
Notation length := Datatypes.length.
Notation concat := List.concat.
Open Scope string_scope.
Open Scope list_scope.
Open Scope Z_scope.

(* short spellings used by tools/ast2coq.py *)
Definition n_ (z : Z) : expr := Lit (LNum (z <? 0) SBareOct false false (Z.abs_N z)).
Definition bad89 : expr := Lit (LBad89 false [8%N]).
Definition c1_ (c : N) : expr := Lit (LChar1 c).
Definition c2_ (c d : N) : expr := Lit (LChar2 c d).
Definition s_ (s : string) : expr := Sym s.
Definition g_ (e : expr) : expr := Group Paren e.
Definition ga_ (e : expr) : expr := Group Angle e.
Definition r_ (n : Z) : expr := n_ n.          (* a register written by name *)

(* what the implementation did with the source *)
Inductive obs : Type := ObsOk (base : Z) (image : list Z) | ObsFailed | ObsOther.

Definition case : Type := (program * obs)%type.

(* the codec of the runs: pdpy11's bk charset (C14's model) *)
(* Model/Asm.v first; when it cannot evaluate a count because a label is not laid out yet, Model/AsmRel.v (counts
   that are constants over the address polynomials of the later labels) *)
Definition run_full (p : program) : xres full :=
  match assemble_full bk_enc p with
  | XUnsup w =>
      if String.eqb w "label-not-laid-out-yet"
      then match assemble_rel_full bk_enc p with XUnsup _ => XUnsup w | r => r end
      else XUnsup w
  | r => r
  end.
Definition rel_used (p : program) : bool :=
  match assemble_full bk_enc p, run_full p with XUnsup _, XUnsup _ => false | XUnsup _, _ => true | _, _ => false end.

(* ---- Spec-level facts the implementation's image has to satisfy ------------------------------- *)
Definition soperand_eqb (a b : soperand) : bool :=
  match a, b with
  | SReg x, SReg y | SDef x, SDef y | SInc x, SInc y | SIncDef x, SIncDef y | SDec x, SDec y
  | SDecDef x, SDecDef y | SImm x, SImm y | SAbs x, SAbs y | SRel x, SRel y | SRelDef x, SRelDef y
  | SAcc x, SAcc y | SNum x, SNum y | STarget x, STarget y => x =? y
  | SIdx x r, SIdx y s | SIdxDef x r, SIdxDef y s => (x =? y) && (r =? s)
  | _, _ => false
  end.

Definition decode_is (ws : list Z) (addr : Z) (name : string) (sops : list soperand) (n : nat) : bool :=
  match decode ws addr with
  | Some (nm, so, k) => String.eqb nm name && list_eqb soperand_eqb so sops && Nat.eqb k n
  | None => false
  end.

Definition bytes_are (rest : list Z) (want : list Z) : bool :=
  list_eqb Z.eqb (firstn (length want) rest) want.

Definition data_ok (w : DataSpec.width) (vs : list Z) (rest : list Z) : bool :=
  match vs with
  | [] => bytes_are rest (DataSpec.zero_bytes (DataSpec.nbytes w))
  | _ => forallb (DataSpec.fits w) vs && bytes_are rest (concat (map (DataSpec.value_bytes w) vs))
  end.

Definition xvals (X : list (string * nat)) (T : symtab) (it : item) (es : list expr) : option (list Z) :=
  match xmapM (fev bk_enc X T (i_scope it) (i_addr it)) es with XOk vs => Some vs | _ => None end.

(* [rest]: the implementation's image from this statement's offset on *)
Definition item_ok (X : list (string * nat)) (T : symtab) (it : item) (rest : list Z) : bool :=
  match i_stmt it with
  | Insn m ops =>
      match xmapM (eval_opnd (fev bk_enc X T (i_scope it) (i_addr it))) ops with
      | XOk os =>
          if existsb explicit_pc_autoinc os then true
          else match expect m os (i_addr it) with
               | Some (name, sops) =>
                   decode_is (Rad50.words_of_bytes rest) (i_addr it) name sops (Z.to_nat (i_size it / 2))
               | None => false
               end
      | _ => false
      end
  | Byte es => match xvals X T it es with Some vs => data_ok DataSpec.W8 vs rest | None => false end
  | Word es => match xvals X T it es with Some vs => data_ok DataSpec.W16 vs rest | None => false end
  | Dword es => match xvals X T it es with Some vs => data_ok DataSpec.W32 vs rest | None => false end
  | WordList es =>
      match xvals X T it es with
      | Some vs => forallb (DataSpec.fits DataSpec.W16) vs
                   && bytes_are rest (concat (map (DataSpec.value_bytes DataSpec.W16) vs))
      | None => false
      end
  | _ => true
  end.

Fixpoint items_ok (X : list (string * nat)) (T : symtab) (its : list item) (rest : list Z) : bool :=
  match its with
  | [] => true
  | it :: r => item_ok X T it rest && items_ok X T r (skipn (Z.to_nat (i_size it)) rest)
  end.

Definition why_code (w : string) : N :=
  if String.eqb w "label-not-laid-out-yet" then 1
  else if String.eqb w "dot-of-a-later-definition" then 2
  else if String.eqb w "link-inside-repeat" then 3
  else if String.eqb w "base-set-inside-repeat" then 4
  else if String.eqb w "end-inside-block" then 5
  else if String.eqb w "size-guard" then 6
  else if String.eqb w "own-base-in-include" then 8
  else if String.eqb w "include-inside-repeat" then 9
  else if String.eqb w "extern-inside-repeat" then 10
  else if String.eqb w "file-ids" then 11
  else 7.

(* bit 0: model <> implementation; bit 1: the implementation's image contradicts the Spec;
   bit 2: the model says Unsupported (then bits 5.. carry the reason); bit 3: the model crashed or ran
   out of fuel (never expected) *)
Definition judge0 (c : case) : N :=
  let '(p, o) := c in
  match run_full p with
  | XUnsup w => (4 + 32 * why_code w)%N
  | XCrash _ | XOutOfFuel => 9%N
  | XErr _ => match o with ObsFailed => 0%N | _ => 1%N end
  | XOk f =>
      match o with
      | ObsOk base image =>
          let corr := (f_base f =? base) && list_eqb Z.eqb (concat (f_chunks f)) image in
          let prop := if f_base f =? base then items_ok (f_exports f) (f_syms f) (f_items f) image else true in
          code_of corr prop
      | _ => 1%N
      end
  end.

(* bit 12: the program is in the syntactic class of R_supported; bit 13: assembled through Model/AsmRel.v *)
Definition judge (c : case) : N :=
  (judge0 c + (if supported (fst c) then 4096 else 0) + (if rel_used (fst c) then 8192 else 0))%N.

(* for replay / debugging: what the model produced *)
Definition show (p : program) : xres (Z * list Z * symtab) := assemble bk_enc p.

(* ---- the whole-program laws (Props/R.v: R_move_def, R_repeat_unroll, R_insert_is_bytes, R_end_cuts) ------
   one case: the abstract program p (converted from the source), the abstract program p2 converted from the
   source TRANSFORMED AS TEXT by the harness, the law with its positions, and what the implementation did with
   the two sources.  For LCut the first source is the one with `.end` put in front of the rest. *)
Definition res3 : Type := xres (Z * list Z * symtab).

Definition sym_eqb (a b : key * Z) : bool := key_eqb (fst a) (fst b) && (snd a =? snd b).

Definition res_exact (r r' : res3) : bool :=
  match r, r' with
  | XOk (b, i, T), XOk (b', i', T') => (b =? b') && list_eqb Z.eqb i i' && list_eqb sym_eqb T T'
  | XErr _, XErr _ => true
  | XUnsup _, XUnsup _ => true
  | _, _ => false
  end.

Definition agrees (r : res3) (o : obs) : bool :=
  match r with
  | XOk (b, i, _) => match o with ObsOk b' i' => (b =? b') && list_eqb Z.eqb i i' | _ => false end
  | XErr _ => match o with ObsFailed => true | _ => false end
  | _ => false
  end.

Definition is_unsup (r : res3) : bool := match r with XUnsup _ => true | _ => false end.

Definition obs_same (o o' : obs) : bool :=
  match o, o' with
  | ObsOk b i, ObsOk b' i' => (b =? b') && list_eqb Z.eqb i i'
  | ObsFailed, ObsFailed => true
  | _, _ => false
  end.
Definition obs_known (o : obs) : bool := match o with ObsOther => false | _ => true end.

Definition law_case : Type := (program * program * law * obs * obs)%type.

(* bit 0  model <> implementation on one of the two sources
   bit 1  the REAL CODE violates the law (hypotheses hold, the two sources do not assemble alike)
   bit 2  the hypotheses of the law do not hold of this case (nothing judged)
   bit 3  the Gallina transformation of p does not assemble exactly like the converted transformed text
   bit 4  the MODEL violates the law (provably never set: Props/R.v R_law_sound_bool)
   bit 5  the model answers Unsupported for one of the programs (nothing judged) *)
Definition judge_law (c : law_case) : N :=
  let '(p, p2, l, o1, o2) := c in
  match law_pair l p with
  | None => 8%N
  | Some (before, after) =>
      if negb (law_hyps l p) then 4%N else
      let rb := show before in let ra := show after in let r2 := show p2 in
      if is_unsup rb || is_unsup ra || is_unsup r2 then 32%N else
      ((if agrees rb o1 && agrees r2 o2 then 0 else 1)
       + (if obs_known o1 && obs_known o2 && negb (obs_same o1 o2) then 2 else 0)
       + (if res_exact ra r2 then 0 else 8)
       + (if res_same rb ra then 0 else 16))%N
  end.

(* ---- relocation (Props/R.v: R_relocation_partial): the same program assembled at several bases ---------------
   one case: the program without its `.link`, and per base what the implementation did with `.link b` + program.
   With the placed statements of the model at the first base: an instruction's first word and every byte of the
   statements that are not instructions or word data are the same at every base; every other word is the same or
   moved by the difference of the bases (mod 2^16). *)
Definition word_rel (delta w w' : Z) : bool := (w =? w') || ((w' - w) mod 65536 =? delta mod 65536).

(* per extension word of an instruction of the class, in operand order: does it move with the base? *)
Definition opnd_kinds (o : aoperand) : list bool :=
  match o with
  | AIndex _ _ | AIndexDef _ _ | ARel _ | ARelDef _ => [false]
  | AImm e | AAbs e => [is_sym e]
  | _ => []
  end.
Definition word_kind (delta : Z) (k : bool) (w w' : Z) : bool :=
  if k then (w' - w) mod 65536 =? delta mod 65536 else w =? w'.
Fixpoint words_kinds (delta : Z) (ks : list bool) (ws ws' : list Z) : bool :=
  match ks, ws, ws' with
  | [], [], [] => true
  | k :: ks', w :: r, w' :: r' => word_kind delta k w w' && words_kinds delta ks' r r'
  | _, _, _ => false
  end.

Fixpoint chunk_rel (delta : Z) (its : list item) (img img' : list Z) : bool :=
  match its with
  | [] => true
  | it :: r =>
      let n := Z.to_nat (i_size it) in
      let c := firstn n img in let c' := firstn n img' in
      (match i_stmt it with
       | Insn m ops =>
           match Rad50.words_of_bytes c, Rad50.words_of_bytes c' with
           | w :: ws, w' :: ws' =>
               let ks := flat_map opnd_kinds ops in
               (w =? w') && (if Nat.eqb (length ks) (length ws) then words_kinds delta ks ws ws'
                             else list_eqb (word_rel delta) ws ws')
           | [], [] => true
           | _, _ => false
           end
       | Word es | WordList es => words_kinds delta (map is_sym es) (Rad50.words_of_bytes c) (Rad50.words_of_bytes c')
       | _ => list_eqb Z.eqb c c'
       end)
      && chunk_rel delta r (skipn n img) (skipn n img')
  end.

Definition reloc_case : Type := (program * list (Z * obs))%type.

(* bit 0  model <> implementation at some base;  bit 1  the REAL images violate the relocation law;
   bit 2  the program is outside the class reloc_ok (only bit 0 judged);  bit 4  the MODEL's images violate it;
   bit 5  the model answers Unsupported *)
Definition judge_reloc (c : reloc_case) : N :=
  let '(rest, obss) := c in
  let runs := map (fun bo => (fst bo, snd bo, run_full (at_base (fst bo) rest))) obss in
  if existsb (fun r => match snd r with XUnsup _ => true | _ => false end) runs then 32%N else
  let corr := forallb (fun r => match snd r with
                                | XOk f => agrees (XOk (f_base f, concat (f_chunks f), f_syms f)) (snd (fst r))
                                | XErr e => agrees (XErr e) (snd (fst r))
                                | _ => false end) runs in
  if negb (reloc_ok rest) then ((if corr then 0 else 1) + 4)%N else
  match runs with
  | (b0, ObsOk _ img0, XOk f0) :: others =>
      let real := forallb (fun r => match r with
                                    | (b, ObsOk _ img, _) => (length img =? length img0)%nat && chunk_rel (b - b0) (f_items f0) img0 img
                                    | _ => true end) others in
      let model := forallb (fun r => match r with
                                     | (b, _, XOk f) => chunk_rel (b - b0) (f_items f0) (concat (f_chunks f0)) (concat (f_chunks f))
                                     | _ => true end) others in
      ((if corr then 0 else 1) + (if real then 0 else 2) + (if model then 0 else 16))%N
  | _ => (if corr then 0 else 1)%N
  end.
