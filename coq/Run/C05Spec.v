(* C05, the property's oracle only: Spec.Arith.eval on the abstract tree against what the real
   assembler stored for '.dword <text>' (charset bk).  Imports no model of the parser and nothing
   generated from operators.py, so it still evaluates when those break. *)
From Coq Require Import String Ascii List ZArith NArith Bool.
From Verif Require Import Base.Res Spec.ExprTokens Spec.Arith Model.BkCodec Run.Show.
Import ListNotations.
Open Scope string_scope.

(* what the implementation did: the 32-bit value stored, or the set of error/critical identifiers
   reported (sorted, without repetitions), or anything else (crash, hang, warning-only oddities) *)
Inductive observed := ObsValue (v : Z) | ObsFailed (ids : list string) | ObsOther.

Record case := mk_case {
  c_tree : expr;
  c_tokens : list token;
  c_syms : list (string * Z);
  c_dot : Z;
  c_obs : observed
}.

(* ---- small helpers -------------------------------------------------------------------------- *)
Definition token_eqb (a b : token) : bool :=
  match a, b with
  | TNum x, TNum y | TSym x, TSym y | TRad50 x, TRad50 y | TP x, TP y => String.eqb x y
  | TDot, TDot => true
  | TChar1 x, TChar1 y => N.eqb x y
  | TChar2 x1 x2, TChar2 y1 y2 => N.eqb x1 y1 && N.eqb x2 y2
  | _, _ => false
  end.

Fixpoint assoc (s : string) (m : list (string * Z)) : option Z :=
  match m with
  | [] => None
  | (k, v) :: rest => if String.eqb k s then Some v else assoc s rest
  end.

Definition mem (s : string) (l : list string) : bool := existsb (String.eqb s) l.
Definition subset (a b : list string) : bool := forallb (fun s => mem s b) a.
Definition same_set (a b : list string) : bool := subset a b && subset b a.

(* the output charset of the runs: bk *)
Definition enc_char (c : N) : option (list N) :=
  match bk_encode_char c with Some b => Some [b] | None => None end.
Definition enc_string (cs : list N) : option (list N) :=
  match bk_encode cs with EncOk bs => Some bs | EncError _ _ => None end.

(* .dword stores a value v with -2^32 < v < 2^32 as v mod 2^32 and reports anything else *)
Definition two32 : Z := 4294967296%Z.
Definition dword_of (v : Z) : option Z :=
  if ((- two32 <? v) && (v <? two32))%Z then Some (v mod two32)%Z else None.

(* ---- the property: the Spec alone against the observation -------------------------------------- *)
Definition spec_value (c : case) : res Z :=
  eval enc_char (fun s => assoc s (c_syms c)) (c_dot c) (c_tree c).

Definition prop (c : case) : bool :=
  match spec_value c, c_obs c with
  | Ok v, ObsValue w => match dword_of v with Some u => Z.eqb u w | None => false end
  | Ok v, ObsFailed ids => match dword_of v with Some _ => false | None => mem "value-out-of-bounds" ids end
  | Err ids, ObsFailed ids' => subset ids ids'
  | _, _ => false
  end.

(* the Spec's verdict only (bit 1) *)
Definition judge_spec (c : case) : N := code_of true (prop c).
