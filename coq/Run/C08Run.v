(* evaluation of C08 cases: Model/WaitModel.v against the real objects of pdpy11/deferred.py.

   A case is a graph of deferred objects built by the harness through the internal API (Deferred / Promise
   instances whose fn calls wait() on other instances), a sequence of wait() calls on it, and what the real
   code did at each call: the value or the exception class, whether every is_awaiting flag was False again,
   and which Deferred objects were settled afterwards. *)
From Coq Require Import List ZArith NArith Bool Arith.
From Verif Require Import Gen.GenPartial Model.WaitModel Run.Show.
Import ListNotations.
Open Scope Z_scope.

(* node k as the harness builds it *)
Inductive nspec :=
| SConst (z : Z)                                   (* settled to an int *)
| SConstF (j : nat)                                (* settled to the object j *)
| SFn (deps : list nat) (c : Z) (fwd : option nat) (* fn: vals = [wait(d) for d in deps]; return object fwd, or c + sum(vals) *)
| SPoly (deps : list nat) (c : Z) (fwd : option nat) (* the same behaviour in an instance of (a subclass of) LinearPolynomial *)
| SUnsettled.                                      (* Promise never settled *)

Definition g_of (c : Z) (fwd : option nat) (vals : list Z) : nres :=
  match fwd with
  | Some j => NFwd j
  | None => NVal (fold_left Z.add vals c)
  end.

Definition node_of (s : nspec) : node :=
  match s with
  | SConst z => NConst (NVal z)
  | SConstF j => NConst (NFwd j)
  | SFn deps c fwd | SPoly deps c fwd => NFn deps (g_of c fwd)
  | SUnsettled => NUnsettled
  end.

Inductive obs :=
| ObsVal (z : Z)
| ObsCycle
| ObsNotReady
| ObsCrash        (* Exception("Promise ... is not ready") *)
| ObsHang         (* watchdog *)
| ObsOther.       (* any other exception class *)

(* one wait() call: start node, speculating?, observed outcome, all flags False afterwards?, settled flags *)
(* spec: 0 = a real evaluation (try_compute.depth = 0); 1 = speculative, opening a new outermost speculation
   (TryCompute.__enter__ at depth 0 empties not_ready_yet); 2 = speculative inside the speculation already open *)
Definition step := (nat * nat * obs * bool * list bool * list bool)%type.   (* ..., settled flags, membership in not_ready_yet *)
Definition wcase := (list nspec * list step)%type.

(* the two bounds of wait() as the source has them now *)
Definition py_bound : nat := wait_seen_bound.
Definition py_bound2 : nat := wait_poly_bound.
Definition isp_of (specs : list nspec) (k : nat) : bool :=
  match nth_error specs k with Some (SPoly _ _ _) => true | _ => false end.

Definition fuel_for (G : graph) : nat :=
  if (length G <=? 16)%nat then fuel_bound py_bound G else (4 * length G + 3000)%nat.

Definition obs_matches (r : res) (o : obs) : bool :=
  match r, o with
  | RVal z _, ObsVal z' => z =? z'
  | RRaise ECycle _, ObsCycle => true
  | RRaise ENotReady _, ObsNotReady => true
  | RRaise ECrash _, ObsCrash => true
  | _, _ => false
  end.

Definition state_of (st : state) (r : res) : state :=
  match r with RVal _ s | RRaise _ s => s | RFuel => st end.

Definition settled_flags (st : state) : list bool :=
  map (fun o => match o with Some _ => true | None => false end) (settled st).

Fixpoint bools_eqb (a b : list bool) : bool :=
  match a, b with
  | [], [] => true
  | x :: xs, y :: ys => Bool.eqb x y && bools_eqb xs ys
  | _, _ => false
  end.

(* only unsettled Deferred objects (SFn) have a settled flag worth comparing *)
Fixpoint mask_fn (specs : list nspec) (fl : list bool) : list bool :=
  match specs, fl with
  | SFn _ _ _ :: ss, b :: bs | SPoly _ _ _ :: ss, b :: bs => b :: mask_fn ss bs
  | _ :: ss, _ :: bs => false :: mask_fn ss bs
  | _, _ => []
  end.

Fixpoint run_steps (specs : list nspec) (G : graph) (st : state) (steps : list step) : bool :=
  match steps with
  | [] => true
  | (i, spn, o, flags_clear, sett, mem) :: rest =>
    let sp := negb (Nat.eqb spn 0) in
    let st0 := if Nat.eqb spn 1 then clear_memo st else st in
    let r := wait true py_bound py_bound2 (isp_of specs) sp G (fuel_for G) st0 i in
    let st' := state_of st0 r in
    obs_matches r o
    && forallb negb (awaiting st')               (* the model restores its flags (also a theorem) *)
    && flags_clear
    && bools_eqb (mask_fn specs (settled_flags st')) (mask_fn specs sett)
    && bools_eqb (memo st') mem
    && run_steps specs G st' rest
  end.

Definition corr (c : wcase) : bool :=
  let G := map node_of (fst c) in
  run_steps (fst c) G (init_state G) (snd c).

(* the property on the observation alone: every wait() ended (no hang), with a value or one of the three
   exception classes the callers handle, and left no is_awaiting flag behind; the fatal Exception only when the
   graph really contains an unsettled Promise and the call was not speculative *)
Definition has_unsettled (specs : list nspec) : bool :=
  existsb (fun s => match s with SUnsettled => true | _ => false end) specs.

Definition prop_step (specs : list nspec) (s : step) : bool :=
  match s with
  | (_, spn, o, flags_clear, _, _) =>
    let sp := negb (Nat.eqb spn 0) in
    flags_clear &&
    match o with
    | ObsVal _ | ObsCycle => true
    | ObsNotReady => sp && has_unsettled specs
    | ObsCrash => negb sp && has_unsettled specs
    | ObsHang | ObsOther => false
    end
  end.

Definition prop (c : wcase) : bool := forallb (prop_step (fst c)) (snd c).

Definition judge (c : wcase) : N := code_of (corr c) (prop c).
