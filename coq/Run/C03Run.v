(* evaluation of C03 cases: a program of definitions and uses, and what pdpy11 emitted for it
   ('.word e' per use).  bit 0: Model.LazyEval.lazy_run (the mechanism) disagrees with the observation;
   bit 1: the final evaluation over the whole table (the order-free meaning) disagrees with it. *)
From Coq Require Import String List ZArith NArith Bool.
From Verif Require Import Base.Res Model.LazyEval Run.Show.
Import ListNotations.
Open Scope Z_scope.

Inductive obs := ObsOk (ws : list Z) | ObsFail.

(* what '.word v' does with a value: 16-bit two's complement if -65536 < v < 65536, else an error *)
Inductive expected := ExpOk (ws : list Z) | ExpFail | ExpBroken.

Fixpoint expect (rs : list (res Z)) : expected :=
  match rs with
  | [] => ExpOk []
  | r :: rest =>
      match r, expect rest with
      | (OutOfFuel | Crash _), _ => ExpBroken
      | _, ExpBroken => ExpBroken
      | Err _, _ => ExpFail
      | Ok v, ExpFail => ExpFail
      | Ok v, ExpOk ws => if (-65536 <? v) && (v <? 65536) then ExpOk (v mod 65536 :: ws) else ExpFail
      end
  end.

Definition agree (rs : list (res Z)) (o : obs) : bool :=
  match expect rs, o with
  | ExpOk ws, ObsOk ws' => list_eqb Z.eqb ws ws'
  | ExpFail, ObsFail => true
  | _, _ => false
  end.

(* the words come from the uses; the build also fails when a definition nobody uses cannot be evaluated
   (every symbol is forced at link time): [close] appends one use per definition *)
Definition expect_closed (nuses : nat) (rs : list (res Z)) : expected :=
  match expect rs with
  | ExpOk _ => expect (firstn nuses rs)
  | ExpFail => ExpFail
  | ExpBroken => ExpBroken
  end.

(* a forced definition may be out of the 16-bit range without harm: only Ok/Err matters for it *)
Definition soften (nuses : nat) (rs : list (res Z)) : list (res Z) :=
  firstn nuses rs ++ map (fun r => match r with Ok _ => Ok 0 | x => x end) (skipn nuses rs).

Definition agree_closed (nuses : nat) (rs : list (res Z)) (o : obs) : bool :=
  match expect_closed nuses (soften nuses rs), o with
  | ExpOk ws, ObsOk ws' => list_eqb Z.eqb ws ws'
  | ExpFail, ObsFail => true
  | _, _ => false
  end.

Definition judge (c : list stmt * obs) : N :=
  let ss := fst c in
  let f := run_bound ss in
  let n := length (uses_of ss) in
  code_of (agree_closed n (lazy_run f (close ss)) (snd c)) (agree_closed n (final_run f (close ss)) (snd c)).

(* the Gallina move_def against the harness's own: the moved program as the harness built it *)
Definition stmt_eqb (a b : stmt) : bool :=
  match a, b with
  | SDef n _, SDef m _ => String.eqb n m
  | SUse _, SUse _ => true
  | _, _ => false
  end.

(* shape only: kinds and defined names in order (expressions travel with their statement) *)
Definition judge_move (c : list stmt * (nat * nat) * list stmt) : N :=
  let '(ss, (i, j), moved) := c in
  if list_eqb stmt_eqb (move_def ss i j) moved then 0%N else 1%N.
