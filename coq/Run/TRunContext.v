(* judges of tools/t_check.py for Gen/GenPureContext.v; see Run/TRun.v *)
From Coq Require Import String List ZArith NArith Bool.
From Verif Require Import Base.Res Gen.GenPure Gen.GenPureContext Run.Show Run.TRun.
Import ListNotations.
Open Scope Z_scope.

Definition fpiece_eqb (a b : fpiece) : bool :=
  match a, b with
  | FLit x, FLit y => list_eqb N.eqb x y
  | FStr x, FStr y => list_eqb N.eqb x y
  | FInt x, FInt y => Z.eqb x y
  | _, _ => false
  end.

(* (file name, text, self.pos, the line and column repr() printed after "<file name>:") *)
Definition judge_context (c : list N * list N * Z * res (Z * Z)) : N :=
  let '(fn, text, pos, impl) := c in
  code (res_eqb (list_eqb fpiece_eqb) (context_repr fn text pos)
                (rmap (fun lc => [FStr fn; FLit [58%N]; FInt (fst lc); FLit [58%N]; FInt (snd lc)]) impl)).
