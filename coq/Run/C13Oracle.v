(* C13 -- the property's oracle on observed outputs: Spec readers only (no Model, no Gen), so
   it still evaluates when the model or the translator is broken.  The case records defined
   here are shared with Run/C13Run.v, which adds the model's verdict (correspondence). *)
From Coq Require Import String Ascii List ZArith NArith Bool.
From Verif Require Import Spec.Riff Spec.BkTape Spec.BinFile Run.Show.
Import ListNotations.
Open Scope list_scope.
Open Scope Z_scope.

(* observed bytes travel as (chunk, repeat) pairs to keep the generated literals small *)
Definition rep := list (list Z * N).
Definition expand_rep (r : rep) : list Z :=
  flat_map (fun cn => N.iter (snd cn) (app (fst cn)) []) r.

(* (length, sum, sum of prefix sums, sum of those): the power moments of order 0..2 of the
   byte string, as in Fletcher's checksum but without reduction.  Additions only -- [Z.modulo]
   or a multiplication per sample is what makes vm_compute slow here.  The harness computes
   the same in Python. *)
Definition hash (l : list Z) : Z * Z * Z * Z :=
  fold_left (fun st x => match st with (n, s1, s2, s3) =>
      let s1' := s1 + x in let s2' := s2 + s1' in (n + 1, s1', s2', s3 + s2') end) l (0, 0, 0, 0).

Definition hash_eqb (x y : Z * Z * Z * Z) : bool :=
  match x, y with (a, b, c, d), (a', b', c', d') => (a =? a') && (b =? b') && (c =? c') && (d =? d') end.

Inductive okind := KBin | KRaw | KWav | KTurbo.

Definition okind_eqb (a b : okind) : bool :=
  match a, b with KBin, KBin | KRaw, KRaw | KWav, KWav | KTurbo, KTurbo => true | _, _ => false end.

Definition opt_triple_eqb (x : option (Z * Z * list Z)) base n code : bool :=
  match x with Some (b, l, c) => (b =? base) && (l =? n) && zlist_eqb c code | None => false end.

(* does the file [out] carry the image (base, code) in container [k]?
   name = Some n: the tape must carry exactly the 16 bytes n; None: any 16 bytes *)
Definition prop_content (k : okind) (base : Z) (code : list Z) (name : option (list Z)) (out : list Z) : bool :=
  match k with
  | KRaw => match parse_raw out with Some c => zlist_eqb c code | None => false end
  | KBin => opt_triple_eqb (parse_bin out) base (Z.of_nat (length code)) code
  | KWav | KTurbo =>
      match parse_wav out with
      | Some (rate, 1, 8, smp) =>
          match demod (okind_eqb k KTurbo) smp with
          | Some t => carriesb t base code (match name with Some n => n | None => t_name t end)
                      && Nat.eqb (length (t_name t)) 16
          | None => false
          end
      | _ => false
      end
  end.

(* the image cannot be put into the container at all: only then may the writer refuse *)
Definition unrepresentable (k : okind) (base : Z) (code : list Z) : bool :=
  match k with
  | KRaw => false
  | _ => (base <? 0) || (65536 <=? base) || (65536 <=? Z.of_nat (length code))
  end.

(* ------------------------------------------------------------------ file_formats[...] cases *)
Record ocase := {
  oc_kind : okind; oc_base : Z; oc_code : rep;
  oc_name : option (list Z);       (* the bk_filename argument (WAV kinds) *)
  oc_obs : option rep }.           (* the returned bytes; None = struct.error *)

(* a name argument that is not 16 bytes long is outside the property (the directives always
   pass 16): then only the rest of the recording is judged *)
Definition name16 (n : option (list Z)) : option (list Z) :=
  match n with Some l => if Nat.eqb (length l) 16 then Some l else None | None => None end.

Definition prop_ocase (c : ocase) : bool :=
  let code := expand_rep (oc_code c) in
  match oc_obs c with
  | Some r => prop_content (oc_kind c) (oc_base c) code (name16 (oc_name c)) (expand_rep r)
  | None => unrepresentable (oc_kind c) (oc_base c) code
  end.

Definition judge_ocase (c : ocase) : N := code_of true (prop_ocase c).

(* what a WAV demodulates to, for messages: [1; base; length; checksum; expected checksum] *)
Definition tape_summary (turbo : bool) (out : list Z) : list Z :=
  match parse_wav out with
  | Some (_, _, _, smp) =>
      match demod turbo smp with
      | Some t => [1; t_base t; t_length t; t_checksum t; cksum_spec (t_data t)]
      | None => [0]
      end
  | None => [-1]
  end.

(* ------------------------------------------------------------------ make_xxx directive cases *)
Definition chars (x : string) : list ascii := list_ascii_of_string x.

Definition lower_char (c : ascii) : ascii :=
  let n := nat_of_ascii c in
  if (Nat.leb 65 n && Nat.leb n 90)%bool then ascii_of_nat (n + 32) else c.

Fixpoint chars_eqb (a b : list ascii) : bool :=
  match a, b with
  | [], [] => true
  | x :: a', y :: b' => Ascii.eqb x y && chars_eqb a' b'
  | _, _ => false
  end.

(* p = stem ++ suf with |suf| = 4 reading [ext4] in any letter case: Some stem *)
Definition strip_ext_ci (p : list ascii) (ext4 : string) : option (list ascii) :=
  let n := length p in
  if Nat.leb 4 n && chars_eqb (map lower_char (skipn (n - 4) p)) (chars ext4)
  then Some (firstn (n - 4) p) else None.

(* the part after the last slash *)
Fixpoint after_last_slash (p : list ascii) : list ascii :=
  match p with
  | [] => []
  | c :: r => if existsb (Ascii.eqb "/"%char) r then after_last_slash r
              else if Ascii.eqb c "/"%char then r else p
  end.

Inductive odir := DBin | DRom | DRaw | DWav | DTurbo.

Record odcase := {
  od_dir : odir; od_path : option string; od_tape : option string; od_filename : string;
  (* observed entry of Compiler.emitted_files, and whether a too-long-string error was reported *)
  od_obs_kind : okind; od_obs_path : string; od_obs_name : option (list Z); od_obs_error : bool }.

Definition want_kind (d : odir) : okind :=
  match d with DBin | DRom => KBin | DRaw => KRaw | DWav => KWav | DTurbo => KTurbo end.

(* without a path operand the file is named after the source: minus a 4-character suffix that
   reads ".mac" in any letter case, plus the extension of the container *)
Definition spec_default_path (d : odir) (filename path : list ascii) : bool :=
  let ext := match d with DBin | DRom => chars ".bin" | DRaw => [] | _ => chars ".wav" end in
  let stem := match strip_ext_ci filename ".mac" with Some st => st | None => filename end in
  chars_eqb (stem ++ ext) path.

(* the tape name is 16 bytes: the encoded name followed by spaces; an encoded name longer than
   16 BYTES (not characters) is an error, one of at most 16 bytes is not *)
Definition spec_tape_bytes (enc : list Z) (name : option (list Z)) (err : bool) : bool :=
  match name with
  | None => false
  | Some nm =>
      Nat.eqb (length nm) 16 &&
      if Nat.leb (length enc) 16
      then negb err && zlist_eqb nm (enc ++ repeat 32 (16 - length enc))
      else err
  end.

(* the name is the given one (else the file's base name without ".wav"); printable ASCII
   encodes to itself in every charset the ASCII cases use *)
Definition spec_tape_name (given : option (list ascii)) (path : list ascii) (name : option (list Z)) (err : bool) : bool :=
  let base := after_last_slash path in
  let shown := match given with
               | Some g => g
               | None => match strip_ext_ci base ".wav" with Some st => st | None => base end
               end in
  spec_tape_bytes (map (fun ch => Z.of_N (N_of_ascii ch)) shown) name err.

(* tape names under an output charset (--charset / Compiler(output_charset=...)): the case carries
   the shown name (given, or inferred from the file name by the harness from the property text)
   already encoded by CPython's codec of that charset, None when the codec cannot encode it *)
Record otcase := {
  ot_enc : option (list Z);
  ot_obs_name : option (list Z);     (* the name of the observed Compiler.emitted_files entry *)
  ot_obs_long : bool;                (* a too-long-string error was reported *)
  ot_obs_char : bool;                (* an invalid-character error was reported *)
  ot_obs_failed : bool }.            (* the assembly failed *)

Definition prop_otcase (c : otcase) : bool :=
  match ot_enc c with
  | Some enc => negb (ot_obs_char c) && spec_tape_bytes enc (ot_obs_name c) (ot_obs_long c)
                && Bool.eqb (ot_obs_failed c) (ot_obs_long c)
  | None => ot_obs_char c && ot_obs_failed c     (* a name the charset cannot carry is refused *)
  end.

Definition judge_otcase (c : otcase) : N := code_of true (prop_otcase c).

(* a Coq string from bytes: tape names of the command-line cases, encoded by the harness *)
Fixpoint bstr (l : list Z) : string :=
  match l with
  | [] => EmptyString
  | b :: r => String (ascii_of_N (Z.to_N b)) (bstr r)
  end.

Definition prop_odcase (c : odcase) : bool :=
  let wav := match od_dir c with DWav | DTurbo => true | _ => false end in
  okind_eqb (od_obs_kind c) (want_kind (od_dir c))
  && match od_path c with
     | None => spec_default_path (od_dir c) (chars (od_filename c)) (chars (od_obs_path c))
     | Some _ => true      (* paths given in the source: judged on the file system by the CLI cases *)
     end
  && (if wav then spec_tape_name (option_map chars (od_tape c)) (chars (od_obs_path c)) (od_obs_name c) (od_obs_error c)
      else match od_obs_name c with None => negb (od_obs_error c) | Some _ => false end).

Definition judge_odcase (c : odcase) : N := code_of true (prop_odcase c).

(* ------------------------------------------------------------------ command-line cases *)
Record ocli := {
  cc_cwd : string;
  (* every file holding directives, in assembly order: the infile argument, the `.include` operands
     leading from it to the file (empty for the infile itself), the file's make_xxx directives
     (kind, path, tape name) *)
  cc_sources : list (string * list string * list (odir * option string * option string));
  cc_outfile : option string;
  cc_implicit_bin : bool;
  cc_base : Z; cc_code : list Z;                       (* the assembled image *)
  (* the property's expectation, computed by the harness with pathlib from the property text:
     resolved path, container, tape name; None = the run must fail and write nothing *)
  cc_expected : option (list (string * okind * option (list Z)));
  cc_expected_stdout : option okind;
  cc_lst : bool;                                       (* --lst given *)
  cc_expected_lst : option string;                     (* where the listing is expected (resolved), if any *)
  cc_obs_ok : bool;                                    (* exit status 0 *)
  cc_obs_files : list (string * rep);                  (* every file found afterwards (resolved path), the listing apart *)
  cc_obs_lst : option string;                          (* the *.lst file found afterwards, if any *)
  cc_obs_stdout : rep }.

Fixpoint assoc_s {A} (k : string) (m : list (string * A)) : option A :=
  match m with
  | [] => None
  | (k', v) :: r => if String.eqb k' k then Some v else assoc_s k r
  end.

Definition prop_ocli (c : ocli) : bool :=
  let obs := map (fun kv => (fst kv, expand_rep (snd kv))) (cc_obs_files c) in
  let obs_out := expand_rep (cc_obs_stdout c) in
  match cc_expected c with
  | None => negb (cc_obs_ok c) && match obs with [] => true | _ => false end
            && match cc_obs_lst c with None => true | Some _ => false end
  | Some exp =>
      cc_obs_ok c
      && opt_eqb String.eqb (cc_expected_lst c) (cc_obs_lst c)
      && Nat.eqb (length exp) (length obs)
      && forallb (fun e => match e with (p, k, nm) =>
           match assoc_s p obs with
           | Some o => prop_content k (cc_base c) (cc_code c) nm o
           | None => false
           end end) exp
      && match cc_expected_stdout c with
         | Some k => prop_content k (cc_base c) (cc_code c) None obs_out
         | None => match obs_out with [] => true | _ => false end
         end
  end.

Definition judge_ocli (c : ocli) : N := code_of true (prop_ocli c).

(* ------------------------------------------------------------------ one case type for the generated files *)
Inductive oany :=
| OFormat (c : ocase)
| ODirective (c : odcase)
| OTape (c : otcase)
| OCli (c : ocli).

Definition ojudge (c : oany) : N :=
  match c with
  | OFormat c => judge_ocase c
  | ODirective c => judge_odcase c
  | OTape c => judge_otcase c
  | OCli c => judge_ocli c
  end.
