(* evaluation of C15 cases.  Each case carries the input and what the implementation did with it.
   bit 0 of the answer: Model/Rad50.v disagrees with the implementation (correspondence);
   bit 1: the observation contradicts Spec/Rad50Spec.v (the property; no model, no Gen involved).
   Exhaustive sweeps regenerate their inputs here in a canonical order and answer
   code + 4 * (1 + position of the first offending input). *)
From Coq Require Import String List ZArith NArith Bool.
From Verif Require Import Base.Res Base.Bytes Gen.GenRadix50 Spec.Rad50Spec Model.Rad50 Run.Show.
Import ListNotations.
Notation length := Datatypes.length.
Open Scope list_scope.
Open Scope Z_scope.

Inductive observed :=
| OOk (bytes : list Z)          (* assembled; the image *)
| OErr (ids : list string)      (* failed; identifiers of the error-severity diagnostics, in order *)
| OOther.                       (* crash, hang, anything else *)

(* Spec side: the alphabet character a source character stands for, if any (any code point) *)
Definition spec_char (c : N) : option N := if accepted_char c then Some (fold_case c) else None.

Definition string_eqb (a b : string) : bool := if string_dec a b then true else false.
Definition mem_id (id : string) (ids : list string) : bool := existsb (string_eqb id) ids.

(* ---- '.rad50' on explicit chunks ---------------------------------------------------------- *)
Definition corr_dir (cs : list chunk) (o : observed) : bool :=
  match rad50 rad50_table cs, o with
  | Ok bs, OOk bs' => list_eqb Z.eqb bs bs'
  | Err ids, OErr ids' => list_eqb string_eqb ids ids'
  | _, _ => false
  end.

Fixpoint spec_text (cs : list chunk) : option (list N) * bool * bool :=
  (* (text if everything is acceptable, some bad character, some bad code) *)
  match cs with
  | [] => (Some [], false, false)
  | Str s :: rest =>
      let '(t, bc, bn) := spec_text rest in
      let here := map spec_char s in
      let bad := existsb (fun x => match x with None => true | Some _ => false end) here in
      (match t with
       | Some t' => if bad then None else Some (flat_map (fun x => match x with Some u => [u] | None => [] end) here ++ t')
       | None => None end, bad || bc, bn)
  | Code n :: rest =>
      let '(t, bc, bn) := spec_text rest in
      match char_of_code n with
      | Some u => (match t with Some t' => Some (u :: t') | None => None end, bc, bn)
      | None => (None, bc, true)
      end
  end.

Definition even_len {A} (l : list A) : bool := Nat.even (length l).
Definition bytes_ok (bs : list Z) : bool := forallb byte_ok bs.

Definition prop_dir (cs : list chunk) (o : observed) : bool :=
  let '(t, bc, bn) := spec_text cs in
  match t, o with
  | Some text, OOk bs =>
      even_len bs && bytes_ok bs &&
      let ws := words_of_bytes bs in
      forallb (fun w => w <? 64000) ws &&
      opt_eqb (list_eqb N.eqb) (decode ws) (Some (pad3 32%N text))
  | None, OErr ids =>
      (if bc then mem_id "invalid-character" ids else true) &&
      (if bn then mem_id "value-out-of-bounds" ids else true)
  | _, _ => false
  end.

(* ---- '^R' on explicit text (what follows "^R" up to and including the newline) ------------- *)
Fixpoint prefix_ids (a b : list string) : bool :=
  match a, b with
  | [], _ => true
  | x :: xs, y :: ys => string_eqb x y && prefix_ids xs ys
  | _, [] => false
  end.

Definition corr_lit (text : list N) (o : observed) : bool :=
  match literal rad50_table text, o with
  | Ok w, OOk bs => list_eqb Z.eqb (le16 w) bs
  | Err ids, OErr ids' => prefix_ids ids ids'     (* what follows a bad literal may add more errors *)
  | _, _ => false
  end.

Definition spec_lit_char (c : N) : bool := accepted_char c && negb (N.eqb c 32).

Definition prop_lit (text : list N) (o : observed) : bool :=
  let m := take_while spec_lit_char text in
  if (Nat.leb 1 (length m) && Nat.leb (length m) 3)%bool then
    match o with
    | OOk [lo; hi] => byte_ok lo && byte_ok hi &&
                      opt_eqb (list_eqb N.eqb) (decode [word_of lo hi]) (Some (expected_text m))
    | _ => false
    end
  else
    match o with
    | OErr ids => mem_id "invalid-string" ids
    | _ => false
    end.

(* the literal parser observed on its own (pdpy11.parser.radix50_literal on "^R" ++ text): the value of
   the Number token or the reported errors, and how many characters it consumed after "^R" *)
Definition corr_littok (text : list N) (consumed : nat) (o : observed) : bool :=
  Nat.eqb (literal_consumed rad50_table text) consumed &&
  match literal rad50_table text, o with
  | Ok w, OOk bs => list_eqb Z.eqb (le16 w) bs
  | Err ids, OErr ids' => list_eqb string_eqb ids ids'
  | _, _ => false
  end.

Definition prop_littok (text : list N) (consumed : nat) (o : observed) : bool :=
  let m := take_while spec_lit_char text in
  Nat.eqb (length m) consumed &&
  if (Nat.leb 1 (length m) && Nat.leb (length m) 3)%bool then
    match o with
    | OOk [lo; hi] => byte_ok lo && byte_ok hi &&
                      opt_eqb (list_eqb N.eqb) (decode [word_of lo hi]) (Some (expected_text m))
    | _ => false
    end
  else
    match o with
    | OErr ids => mem_id "invalid-string" ids
    | _ => false
    end.

(* ---- a program of '.rad50' statements ------------------------------------------------------
   Every element is one COMPILATION of a '.rad50' statement (a statement in the body of '.repeat' is
   compiled once per iteration), in address order, with each <expr> chunk replaced by the value the
   expression has in that compilation ('.', symbols).  Nothing else emits bytes, so the image is
   the concatenation of the statements' words; the assembly fails iff some compilation has a bad
   character or a bad code. *)
Definition count_id (id : string) (ids : list string) : nat := length (filter (string_eqb id) ids).

Definition corr_prog (exact : bool) (stmts : list (list chunk)) (o : observed) : bool :=
  let rs := map (rad50 rad50_table) stmts in
  let errs := flat_map (fun r => match r with Err ids => ids | _ => [] end) rs in
  let weird := existsb (fun r => match r with Ok _ => false | Err _ => false | _ => true end) rs in
  if weird then false else
  match errs, o with
  | [], OOk bs' => list_eqb Z.eqb (flat_map (fun r => match r with Ok bs => bs | _ => [] end) rs) bs'
  | _ :: _, OErr ids' =>
      if exact then list_eqb string_eqb errs ids'
      else
        (* a statement that uses a symbol defined further down is compiled when the symbol becomes known: its
           diagnostics come later, and those reported before the evaluation was put off come again *)
        forallb (fun id => mem_id id errs) ids' &&
        forallb (fun id => Nat.leb (count_id id errs) (count_id id ids')) errs
  | _, _ => false
  end.

Fixpoint all_some {A} (l : list (option A)) : option (list A) :=
  match l with
  | [] => Some []
  | Some x :: rest => match all_some rest with Some r => Some (x :: r) | None => None end
  | None :: _ => None
  end.

Definition prop_prog (stmts : list (list chunk)) (o : observed) : bool :=
  let specs := map spec_text stmts in
  let bc := existsb (fun s => snd (fst s)) specs in
  let bn := existsb (fun s => snd s) specs in
  match all_some (map (fun s => fst (fst s)) specs), o with
  | Some texts, OOk bs =>
      even_len bs && bytes_ok bs &&
      let ws := words_of_bytes bs in
      forallb (fun w => w <? 64000) ws &&
      opt_eqb (list_eqb N.eqb) (decode ws) (Some (flat_map (pad3 32%N) texts))
  | None, OErr ids =>
      (* every compilation with a bad code / a bad character is reported *)
      Nat.leb (length (filter (fun s => snd s) specs)) (count_id "value-out-of-bounds" ids) &&
      Nat.leb (length (filter (fun s => snd (fst s)) specs)) (count_id "invalid-character" ids) &&
      (if bc then mem_id "invalid-character" ids else true) &&
      (if bn then mem_id "value-out-of-bounds" ids else true)
  | _, _ => false
  end.

Inductive case :=
| CLitTok (text : list N) (consumed : nat) (o : observed)
| CDir (cs : list chunk) (o : observed)
| CLit (text : list N) (o : observed)
(* the compilations of the '.rad50' statements of a program; exact = no symbol is used before its definition *)
| CProg (exact : bool) (stmts : list (list chunk)) (o : observed)
(* exhaustive: first code a, letters lower-cased?, the 1600 observed words for (b, c) = (0,0) (0,1) ... (39,39)
   of '.rad50 /abc/' *)
| CDirTriples (a : Z) (lower : bool) (ws : list Z)
(* exhaustive: the observed values of '.word ^Rabc' for the (b, c) of [lit_pairs], trailing spaces dropped *)
| CLitTriples (a : Z) (lower : bool) (ws : list Z)
(* all code points lo..hi as '.rad50 "c"': each was refused with exactly one 'invalid-character' *)
| CDirRefusedRange (lo hi : N)
(* all code points lo..hi as '.word ^Rc': each was refused, first error 'invalid-string' *)
| CLitRefusedRange (lo hi : N).

Definition ch (k : Z) : N := nth (Z.to_nat k) alphabet 0%N.
Definition cased (lower : bool) (c : N) : N := if lower then ascii_lower c else c.

Definition zseq (n : nat) : list Z := map Z.of_nat (seq 0 n).
Definition all_pairs : list (Z * Z) := flat_map (fun b => map (fun c => (b, c)) (zseq 40)) (zseq 40).
(* ^R cannot spell an inner space: (0, c) only with c = 0 *)
Definition lit_pairs : list (Z * Z) := filter (fun p => negb ((fst p =? 0) && negb (snd p =? 0))) all_pairs.

(* position (from 1) of the first false, 0 if none *)
Fixpoint first_false (i : N) (l : list bool) : N :=
  match l with
  | [] => 0%N
  | true :: rest => first_false (i + 1) rest
  | false :: _ => i
  end.

Definition sweep_code (corr prop : list bool) : N :=
  let c := forallb (fun x => x) corr in
  let p := forallb (fun x => x) prop in
  (code_of c p + 4 * first_false 1 (map (fun cp => fst cp && snd cp) (combine corr prop)))%N.

Fixpoint zip_with {A B C} (f : A -> B -> C) (a : list A) (b : list B) : list C :=
  match a, b with
  | x :: xs, y :: ys => f x y :: zip_with f xs ys
  | _, _ => []
  end.

Definition dir_triple_corr (a : Z) (lower : bool) (bc : Z * Z) (w : Z) : bool :=
  match rad50_ascii [Str [cased lower (ch a); cased lower (ch (fst bc)); cased lower (ch (snd bc))]] with
  | Ok bs => list_eqb Z.eqb bs (le16 w)
  | _ => false
  end.
Definition triple_prop (a : Z) (bc : Z * Z) (w : Z) : bool :=
  (0 <=? w) && (w <? 64000) &&
  let '(x, y, z) := unpack w in (x =? a) && (y =? fst bc) && (z =? snd bc).

Definition lit_text (a : Z) (lower : bool) (bc : Z * Z) : list N :=
  let l := [cased lower (ch a); cased lower (ch (fst bc)); cased lower (ch (snd bc))] in
  filter (fun c => negb (N.eqb c 32)) l ++ [10%N].
Definition lit_triple_corr (a : Z) (lower : bool) (bc : Z * Z) (w : Z) : bool :=
  match literal_ascii (lit_text a lower bc) with
  | Ok v => v =? w
  | _ => false
  end.

Fixpoint nrange_from (lo : N) (n : nat) : list N :=
  match n with O => [] | S k => lo :: nrange_from (lo + 1) k end.
Definition nrange_incl (lo hi : N) : list N := nrange_from lo (N.to_nat (hi + 1 - lo)).

Definition judge (c : case) : N :=
  match c with
  | CDir cs o => code_of (corr_dir cs o) (prop_dir cs o)
  | CLit text o => code_of (corr_lit text o) (prop_lit text o)
  | CProg exact stmts o => code_of (corr_prog exact stmts o) (prop_prog stmts o)
  | CLitTok text n o => code_of (corr_littok text n o) (prop_littok text n o)
  | CDirTriples a lower ws =>
      if negb (Nat.eqb (length ws) 1600) then 3%N else
      sweep_code (zip_with (dir_triple_corr a lower) all_pairs ws) (zip_with (triple_prop a) all_pairs ws)
  | CLitTriples a lower ws =>
      if negb (Nat.eqb (length ws) (length lit_pairs)) then 3%N else
      sweep_code (zip_with (lit_triple_corr a lower) lit_pairs ws) (zip_with (triple_prop a) lit_pairs ws)
  | CDirRefusedRange lo hi =>
      let cs := nrange_incl lo hi in
      sweep_code
        (map (fun c => match rad50 rad50_table [Str [c]] with
                       | Err ["invalid-character"%string] => true | _ => false end) cs)
        (map (fun c => negb (accepted_char c)) cs)
  | CLitRefusedRange lo hi =>
      let cs := nrange_incl lo hi in
      sweep_code
        (map (fun c => match literal_ascii [c; 10%N] with
                       | Err ("invalid-string"%string :: _) => true | _ => false end) cs)
        (map (fun c => negb (spec_lit_char c)) cs)
  end.
