(* evaluation of C01 cases: correspondence (model vs observed implementation) and property
   (Spec decode / expect vs observed implementation).  Imports no proofs. *)
From Coq Require Import ZArith List String Ascii Bool.
From Verif Require Import Base.Res Spec.PDP11 Gen.GenOpcodes Gen.GenInsnConst Model.Insns Run.Show.
Import ListNotations.
Open Scope string_scope.
Open Scope list_scope.
Open Scope Z_scope.

(* what the implementation did with the one-line program *)
Inductive observed := ObsOk (ws : list Z) | ObsFail | ObsCrash.

Definition soperand_eqb (a b : soperand) : bool :=
  match a, b with
  | SReg x, SReg y | SDef x, SDef y | SInc x, SInc y | SIncDef x, SIncDef y | SDec x, SDec y
  | SDecDef x, SDecDef y | SImm x, SImm y | SAbs x, SAbs y | SRel x, SRel y | SRelDef x, SRelDef y
  | SAcc x, SAcc y | SNum x, SNum y | STarget x, STarget y => x =? y
  | SIdx x r, SIdx y q | SIdxDef x r, SIdxDef y q => (x =? y) && (r =? q)
  | _, _ => false
  end.

(* correspondence: model = implementation (outcome class and words) *)
Definition corr_insn (m : string) (ops : list operand) (addr : Z) (o : observed) : bool :=
  match compile_insn m ops addr, o with
  | Ok ws, ObsOk ws' => list_eqb Z.eqb ws ws'
  | Err _, ObsFail => true
  | _, _ => false
  end.

(* property oracle, Spec only: emitted words decode to what the line denotes and are consumed
   exactly; a line without denotation is refused; nothing crashes.  Lines with an explicit
   (pc)+ / @(pc)+ are outside the statement (correspondence only). *)
Definition prop_insn (m : string) (ops : list operand) (addr : Z) (o : observed) : bool :=
  match o with
  | ObsOk ws =>
      if existsb explicit_pc_autoinc ops then true
      else
        match expect m ops addr, decode ws addr with
        | Some (n, sops), Some (n', sops', len) =>
            String.eqb n n' && list_eqb soperand_eqb sops sops' && Nat.eqb len (List.length ws)
        | _, _ => false
        end
  | ObsFail => match expect m ops addr with None => true | Some _ => false end
  | ObsCrash => false
  end.

Definition judge (c : string * list operand * Z * observed) : N :=
  let '(m, ops, addr, o) := c in code_of (corr_insn m ops addr o) (prop_insn m ops addr o).

(* ------------------------------------------------------------------------------------------ *)
(* introspection of pdpy11.insns.instructions: name, opcode_pattern, per operand stub
   (class name, pattern_char, bit_indexes, unsigned or False) *)
Definition kind_of_class (s : string) : option stub_kind :=
  if String.eqb s "RegisterOperandStub" then Some SkRegister
  else if String.eqb s "RegisterModeOperandStub" then Some SkRegMode
  else if String.eqb s "FP11RMOperandStub" then Some SkFpRM
  else if String.eqb s "FP11AccumulatorOperandStub" then Some SkFpAcc
  else if String.eqb s "OffsetOperandStub" then Some SkOffset
  else if String.eqb s "ImmediateOperandStub" then Some SkImmediate
  else None.

Definition sk_eqb (a b : stub_kind) : bool :=
  match a, b with
  | SkRegister, SkRegister | SkRegMode, SkRegMode | SkFpRM, SkFpRM | SkFpAcc, SkFpAcc
  | SkOffset, SkOffset | SkImmediate, SkImmediate => true
  | _, _ => false
  end.

Fixpoint all2 {A B} (f : A -> B -> bool) (a : list A) (b : list B) : bool :=
  match a, b with
  | [], [] => true
  | x :: a', y :: b' => f x y && all2 f a' b'
  | _, _ => false
  end.

Definition stub_matches (st : stub) (d : string * string * list nat * bool) : bool :=
  let '(cls, pc, bi, u) := d in
  match kind_of_class cls with
  | Some k => sk_eqb (sk st) k && String.eqb (String (pchar st) EmptyString) pc
              && list_eqb Nat.eqb (bit_indexes st) bi && Bool.eqb (unsigned_ st) u
  | None => false
  end.

Definition judge_intro (c : string * string * list (string * string * list nat * bool)) : N :=
  let '(name, pat16, sts) := c in
  let ok :=
    match lookup_pat name opcode_table with
    | Some pat =>
        match init_entry pat with
        | Ok i => String.eqb (string_of_list_ascii (opcode_pattern i)) pat16
                  && all2 stub_matches (stubs i) sts
        | _ => false
        end
    | None => false
    end in
  code_of ok true.

(* number of objects in pdpy11.insns.instructions = number of table entries *)
Definition judge_count (n : N) : N := code_of (N.eqb n (N.of_nat (List.length opcode_table))) true.

(* REGISTER_NAMES (regenerated): the PDP-11 assembler names r0..r7, sp = r6, pc = r7 and nothing else.
   The sweeps print registers by these names, so a changed entry also shows up end to end. *)
Definition arch_register_names : list (string * Z) :=
  [("r0", 0); ("r1", 1); ("r2", 2); ("r3", 3); ("r4", 4); ("r5", 5); ("r6", 6); ("r7", 7); ("sp", 6); ("pc", 7)].
Fixpoint assoc_name (k : string) (l : list (string * Z)) : option Z :=
  match l with
  | [] => None
  | (a, b) :: r => if String.eqb a k then Some b else assoc_name k r
  end.
Definition judge_regnames : N :=
  code_of true
    (Nat.eqb (List.length register_names) 10 &&
     forallb (fun nv => opt_eqb Z.eqb (assoc_name (fst nv) register_names) (Some (snd nv))) arch_register_names).
