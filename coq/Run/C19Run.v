(* evaluation of C19 cases: correspondence (Model.ListingM vs observed) and property
   (Spec.Listing judge vs observed, from Run/C19SpecRun.v).  Imports no Proofs. *)
From Coq Require Import String Ascii List ZArith NArith Bool.
From Verif Require Import Base.Res Spec.Listing Model.ListingM Run.Show Run.C19SpecRun.
Import ListNotations.
Open Scope string_scope.

Definition corr_listing (c : lcase) : bool :=
  match generate_listing (c_tbl c) (c_pm c), c_obs c with
  | Ok t, ObsText t' => String.eqb t t'
  | Crash _, ObsCrash => true
  | _, _ => false
  end.

Definition judge_listing (c : lcase) : N := code_of (corr_listing c) (prop_listing c).

Definition opt_str_eqb (a b : option string) : bool :=
  match a, b with
  | None, None => true
  | Some x, Some y => String.eqb x y
  | _, _ => false
  end.

Definition corr_cli (c : ccase) : bool :=
  opt_str_eqb (cli_lst (k_outfile c) (k_emitted c) (k_implicit c) (k_infile c)) (k_obs c).

Definition judge_cli (c : ccase) : N := code_of (corr_cli c) (prop_cli c).
