(* judges of tools/t_check.py for Gen/GenPureListing.v; see Run/TRun.v *)
From Coq Require Import String List ZArith NArith Bool.
From Verif Require Import Base.Res Gen.GenPure Gen.GenPureListing Run.Show Run.TRun.
Import ListNotations.
Open Scope Z_scope.

(* (value of a symbol, the text generate_listing printed before " <name>") *)
Definition judge_listing_value (c : Z * res (list N)) : N :=
  let '(v, impl) := c in code (res_eqb (list_eqb N.eqb) (Ok (listing_value v)) impl).
