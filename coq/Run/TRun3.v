(* judges of tools/t_check3.py for Gen/GenPure3Listing.v (regenerated from pdpy11/compiler.py on every run): the translated
   generate_listing evaluated on the symbol tables / prefix maps the real Compiler.generate_listing was driven with.
   0 = the generated code gives exactly what the implementation gave (the text, or some Python exception), 1 otherwise.
   Imports Gen / Base / Run only. *)
From Coq Require Import String Ascii List ZArith NArith Bool.
From Verif Require Import Base.Res Base.Bytes Gen.GenPure3 Gen.GenPure3Listing Run.Show Run.TRun.
Import ListNotations.
Open Scope Z_scope.

Definition bytes_of (s : string) : list Z := map (fun a => Z.of_N (N_of_ascii a)) (list_ascii_of_string s).

(* (symbols.items() as (key, address), internal_prefix_to_state as (prefix, filename), text returned as bytes) *)
Definition judge_generate_listing (c : list (string * Z) * list (Z * string) * res (list Z)) : N :=
  let '(tbl, pm, impl) := c in
  code (res_eqb (list_eqb Z.eqb) (rmap bytes_of (g_generate_listing tbl pm)) impl).

(* byte / word / dword bodies: (which, emit_address, cooked operands, what the real function gave:
   reports in order as (kind, identifier) and the bytes, or some Python exception) *)
From Verif Require Import Gen.GenPureDirectives Gen.GenPure3Directives.
Definition rep_pair_eqb (a b : string * string) : bool := String.eqb (fst a) (fst b) && String.eqb (snd a) (snd b).
Definition judge_directive_body (c : string * Z * list Z * res (list (string * string) * list Z)) : N :=
  let '(which, addr, vs, impl) := c in
  let g := if String.eqb which "byte" then g_byte_body addr vs
           else if String.eqb which "word" then g_word_body addr vs else g_dword_body addr vs in
  code (res_eqb (fun a b => list_eqb rep_pair_eqb (fst a) (fst b) && list_eqb Z.eqb (snd a) (snd b)) g impl).
