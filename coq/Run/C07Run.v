(* evaluation of C07 cases: correspondence (model vs observed) and property (Spec vs observed) *)
From Coq Require Import String List NArith ZArith Bool.
From Verif Require Import Gen.GenReports Spec.ReportSpec Model.Reports Run.Show.
Import ListNotations.
Open Scope string_scope.
Open Scope list_scope.

Definition prio_eqb := priority_eqb.
Definition rep_eqb (a b : priority * string) : bool := prio_eqb (fst a) (fst b) && String.eqb (snd a) (snd b).
Definition leave_eqb (a b : leave) : bool :=
  match a, b with
  | LNormal, LNormal => true
  | LRaise x, LRaise y => exn_eqb x y
  | _, _ => false
  end.

(* ---- (a) one `with handle_reports(FilterHandler(recorder, wc))` block run on the real classes:
   the warning_control dict, whether the nested handler's __exit__ swallows (None = it has none),
   the trace; observed: how the block was left, the latch, what the recorder got, how many events ran *)
Record block_case := mk_block
  { bc_wc : dict; bc_swallow : bool; bc_trace : list event;
    bo_leave : leave; bo_latch : bool; bo_delivered : list (priority * string); bo_executed : nat }.

Definition corr_block (c : block_case) : bool :=
  let r := run_with_sw (bc_swallow c) (bc_wc c) (bc_trace c) in
  leave_eqb (r_leave r) (bo_leave c) && Bool.eqb (r_latch r) (bo_latch c) &&
  list_eqb rep_eqb (r_delivered r) (bo_delivered c) && Nat.eqb (r_executed r) (bo_executed c).

(* the property on the observation alone: (no foreign exception, UnrecoverableError not raised
   directly, handler does not swallow) left by UnrecoverableError iff an error-severity report was
   executed; every error-severity report executed reached the recorder *)
Definition ev_is_error (ev : event) : bool :=
  match ev with Report p _ => error_severity (sev_of p) | _ => false end.
Definition ev_clean (ev : event) : bool :=
  match ev with RaiseOther _ | RaiseUnrecoverable => false | _ => true end.
Definition prop_block (c : block_case) : bool :=
  let ran := firstn (bo_executed c) (bc_trace c) in
  if bc_swallow c || negb (forallb ev_clean ran) then true else
  Bool.eqb (leave_eqb (bo_leave c) (LRaise EUnrecoverable)) (existsb ev_is_error ran) &&
  list_eqb rep_eqb (filter (fun r => error_severity (sev_of (fst r))) (bo_delivered c))
                   (filter (fun r => error_severity (sev_of (fst r))) (reports_of ran)).

Definition judge_block (c : block_case) : N := code_of (corr_block c) (prop_block c).

(* ---- (b) the -W loop of main_cli executed from its source text on a list of arguments *)
Definition pair_eqb (a b : string * bool) : bool := String.eqb (fst a) (fst b) && Bool.eqb (snd a) (snd b).
Definition corr_wargs (c : list string * dict) : bool := list_eqb pair_eqb (warning_control_of (fst c)) (snd c).
(* property: the dict says, for each of its keys and for the probe names, what the Spec says *)
Definition shows (d : dict) (w : string) : bool :=
  match dict_get w d with Some b => b | None => str_mem w (warning_class "default") end.
Definition prop_wargs (c : list string * dict) : bool :=
  forallb (fun w => Bool.eqb (shows (snd c) w) (spec_warning_shown warning_classes (fst c) w))
          (map fst (snd c) ++ warning_class "all" ++ ["implicit-accumulator"; "unexpected-newline"; "zzz"; ""]).
Definition judge_wargs (c : list string * dict) : N := code_of (corr_wargs c) (prop_wargs c).

(* ---- (c) one real command-line run *)
Inductive shown := ShownGraphical (l : list (bool * string))   (* (is "Error", identifier) per report header *)
                 | ShownBare (l : list bool).                  (* is "Error", one per printed line *)
Record cli_case := mk_cli_case
  { cc_args : list string                          (* the -W arguments *)
  ; cc_full : list ((priority * string) * nat)     (* every report of the in-process assembly, with its number of spans *)
  ; cc_end : event                                 (* how the in-process assembly ended *)
  ; cc_env : cli_env                               (* what the harness arranged for the writes (all succeed, or a planted write fault) *)
  ; co_status : Z
  ; co_internal_error : bool                       (* the "unexpected internal compiler error" banner *)
  ; co_shown : shown
  ; co_written : list nat                          (* which of the requested files (make_* 0..n-1, -o n, listing n+1) were created / changed *)
  ; co_dir_unchanged : bool
  ; co_files_exact : bool                          (* exactly the expected files appeared / changed *)
  ; co_same_as_other_variants : bool }.            (* bytes, files, status identical across -W / format variants (and output options) *)

Definition cli_trace (c : cli_case) : list event :=
  map (fun t => Report (fst (fst t)) (snd (fst t))) (cc_full c) ++ [cc_end c].

(* the reports of emit_files (second block) have one span each *)
Definition full2 (c : cli_case) : list ((priority * string) * nat) :=
  cc_full c ++ map (fun r => (r, 1%nat)) (reports_of (emit_trace (e_make (cc_env c)))).

(* expand the delivered reports to printed lines using the span counts of the full list *)
Fixpoint expand (full : list ((priority * string) * nat)) (deliv : list (priority * string)) : list bool :=
  match full, deliv with
  | (r, n) :: frest, d :: drest =>
      if rep_eqb r d then repeat (error_severity (sev_of (fst d))) n ++ expand frest drest
      else expand frest deliv
  | _, _ => []
  end.

Definition corr_cli (c : cli_case) : bool :=
  let m := cli_run (cc_args c) (cli_trace c) (cc_env c) in
  Z.eqb (c_status m) (co_status c) &&
  match co_shown c with
  | ShownGraphical l => list_eqb (fun a b => Bool.eqb (fst a) (fst b) && String.eqb (snd a) (snd b))
                                 (map (fun r => (error_severity (sev_of (fst r)), snd r)) (c_delivered m)) l
  | ShownBare l => list_eqb Bool.eqb (expand (full2 c) (c_delivered m)) l
  end &&
  list_eqb Nat.eqb (c_written m) (co_written c).

Definition shown_errors (s : shown) : list bool :=
  match s with ShownGraphical l => map fst l | ShownBare l => l end.

(* the property, on the observation alone *)
Definition prop_cli (c : cli_case) : bool :=
  let failed := negb (Z.eqb (co_status c) 0) in
  (if co_internal_error c then failed
   else Bool.eqb failed (existsb (fun b => b) (shown_errors (co_shown c))) && (Z.eqb (co_status c) 0 || Z.eqb (co_status c) 1)) &&
  (if failed then co_dir_unchanged c else co_files_exact c) &&
  co_same_as_other_variants c.

Definition judge_cli (c : cli_case) : N := code_of (corr_cli c) (prop_cli c).
