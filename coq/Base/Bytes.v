(* Little-endian packing (struct.pack "<H", "<B") with Python's range check made explicit. *)
From Coq Require Import String List ZArith Lia Bool.
From Verif Require Import Base.Res.
Import ListNotations.
Open Scope Z_scope.

Definition byte_ok (b : Z) : bool := (0 <=? b) && (b <? 256).

(* struct.pack("<B", v): raises struct.error outside 0..255 *)
Definition pack_B (v : Z) : res (list Z) :=
  if (0 <=? v) && (v <? 256) then Ok [v] else Crash "struct.pack(<B)".

(* struct.pack("<H", v): raises struct.error outside 0..65535 *)
Definition pack_H (v : Z) : res (list Z) :=
  if (0 <=? v) && (v <? 65536) then Ok [v mod 256; v / 256] else Crash "struct.pack(<H)".

Definition le16 (v : Z) : list Z := [v mod 256; (v / 256) mod 256].

Definition word_of (lo hi : Z) : Z := lo + 256 * hi.

Lemma pack_H_le16 v bs : pack_H v = Ok bs -> bs = le16 v /\ 0 <= v < 65536.
Proof.
  unfold pack_H, le16. destruct ((0 <=? v) && (v <? 65536))%bool eqn:E; intros H; inversion H; subst.
  apply andb_prop in E. destruct E as [E1 E2].
  apply Z.leb_le in E1. apply Z.ltb_lt in E2.
  split; [|lia].
  assert (X : (v / 256) mod 256 = v / 256).
  { apply Z.mod_small. split; [apply Z.div_pos; lia | apply Z.div_lt_upper_bound; lia]. }
  rewrite X. reflexivity.
Qed.

Lemma le16_word v : 0 <= v < 65536 ->
  match le16 v with [lo; hi] => word_of lo hi = v /\ 0 <= lo < 256 /\ 0 <= hi < 256 | _ => False end.
Proof.
  intros H. unfold le16, word_of.
  assert (H1 : (v / 256) mod 256 = v / 256).
  { apply Z.mod_small. split; [apply Z.div_pos; lia | apply Z.div_lt_upper_bound; lia]. }
  rewrite H1. split; [|split].
  - pose proof (Z.div_mod v 256). lia.
  - apply Z.mod_pos_bound; lia.
  - split; [apply Z.div_pos; lia | apply Z.div_lt_upper_bound; lia].
Qed.

Fixpoint zeros (n : nat) : list Z := match n with O => [] | S k => 0 :: zeros k end.
Lemma zeros_length n : length (zeros n) = n.
Proof. induction n; simpl; congruence. Qed.
Lemma zeros_all n : Forall (fun b => b = 0) (zeros n).
Proof. induction n; simpl; constructor; auto. Qed.
