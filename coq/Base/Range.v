(* Finite ranges and lifting of boolean sweeps to universally quantified statements. *)
From Coq Require Import List NArith ZArith Lia Bool.
Import ListNotations.

Definition nrange (n : nat) : list N := map N.of_nat (seq 0 n).

Lemma nrange_in (n : nat) (b : N) : (b < N.of_nat n)%N -> In b (nrange n).
Proof.
  intros H. unfold nrange. apply in_map_iff. exists (N.to_nat b). split.
  - apply N2Nat.id.
  - apply in_seq. lia.
Qed.

Lemma nrange_forallb (n : nat) (p : N -> bool) :
  forallb p (nrange n) = true -> forall b, (b < N.of_nat n)%N -> p b = true.
Proof.
  intros H b Hb. rewrite forallb_forall in H. apply H. apply nrange_in. exact Hb.
Qed.

(* integers lo .. lo+n-1 *)
Definition zrange (lo : Z) (n : nat) : list Z := map (fun k => (lo + Z.of_nat k)%Z) (seq 0 n).

Lemma zrange_in lo n z : (lo <= z < lo + Z.of_nat n)%Z -> In z (zrange lo n).
Proof.
  intros H. unfold zrange. apply in_map_iff. exists (Z.to_nat (z - lo)). split.
  - lia.
  - apply in_seq. lia.
Qed.

Lemma zrange_forallb lo n (p : Z -> bool) :
  forallb p (zrange lo n) = true -> forall z, (lo <= z < lo + Z.of_nat n)%Z -> p z = true.
Proof.
  intros H z Hz. rewrite forallb_forall in H. apply H. apply zrange_in. exact Hz.
Qed.
