(* Result type shared by all models: Python partiality is explicit. *)
From Coq Require Import String List ZArith NArith.
Import ListNotations.

(* Ok v      : the code returns v with no error-severity diagnostic
   Err ids   : the code reports error diagnostics (identifiers as in reports.error(id, ...));
               the assembly fails
   Crash s   : the code raises a Python exception that is not a report (ZeroDivisionError,
               AssertionError, ValueError, struct.error ...) at site s
   OutOfFuel : the model ran out of fuel (never a normal-looking value) *)
Inductive res (A : Type) : Type :=
| Ok (a : A)
| Err (ids : list string)
| Crash (site : string)
| OutOfFuel.
Arguments Ok {A} a.
Arguments Err {A} ids.
Arguments Crash {A} site.
Arguments OutOfFuel {A}.

Definition bind {A B} (r : res A) (f : A -> res B) : res B :=
  match r with
  | Ok a => f a
  | Err e => Err e
  | Crash s => Crash s
  | OutOfFuel => OutOfFuel
  end.

Definition rmap {A B} (f : A -> B) (r : res A) : res B := bind r (fun a => Ok (f a)).

Definition is_ok {A} (r : res A) : bool := match r with Ok _ => true | _ => false end.
Definition is_err {A} (r : res A) : bool := match r with Err _ => true | _ => false end.
Definition is_crash {A} (r : res A) : bool := match r with Crash _ => true | _ => false end.

Notation "'do' x <- r ; k" := (bind r (fun x => k)) (at level 200, x name, r at level 100, k at level 200).

Fixpoint mapM {A B} (f : A -> res B) (l : list A) : res (list B) :=
  match l with
  | [] => Ok []
  | x :: xs => do y <- f x; do ys <- mapM f xs; Ok (y :: ys)
  end.

Lemma bind_ok_inv {A B} (r : res A) (f : A -> res B) b :
  bind r f = Ok b -> exists a, r = Ok a /\ f a = Ok b.
Proof. destruct r; simpl; intros H; try discriminate. eauto. Qed.

Lemma mapM_length {A B} (f : A -> res B) l l' : mapM f l = Ok l' -> length l' = length l.
Proof.
  revert l'; induction l as [|x xs IH]; simpl; intros l' H.
  - inversion H; reflexivity.
  - apply bind_ok_inv in H. destruct H as [y [Hy H]].
    apply bind_ok_inv in H. destruct H as [ys [Hys H]].
    inversion H; subst. simpl. f_equal. apply IH. exact Hys.
Qed.
