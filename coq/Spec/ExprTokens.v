(* Tokens of the expression sub-language (C05).  Shared by the printer of Spec/Arith.v and by the
   parser model Model/ExprParse.v.  A token list stands for the source text obtained by writing the
   tokens separated by single blanks. *)
From Coq Require Import String Ascii List NArith.
Import ListNotations.

Inductive token :=
| TNum (s : string)        (* the characters number() works on, without sign: 177  127.  0x7f  ^B101 *)
| TSym (s : string)        (* a symbol name *)
| TDot                     (* '.', the location counter *)
| TChar1 (c : N)           (* quote c:  one character, as a code point *)
| TChar2 (c1 c2 : N)       (* double-quote cc:  two characters *)
| TRad50 (s : string)      (* ^Rccc : the characters after ^R *)
| TP (s : string).         (* punctuation: operator characters and brackets, lower case *)
