(* C05 -- the documented arithmetic of pdpy11 expressions, written from the documentation and
   independently of operators.py / parser.py.  Frozen text: nothing here is regenerated.

   - values are unbounded integers (Z);
   - infix operators  * / %  |  + -  |  << >> _  |  &  |  ^  |  | !   with the C precedence levels
     3, 4, 5, 8, 9, 10 (smaller binds tighter), all left-associative;
   - prefix operators + - ~ ^C bind tighter than every infix operator;
   - / and % are the floor operations (quotient rounded toward minus infinity, remainder with the
     sign of the divisor); division or remainder by zero is an error;
   - << and >> with a negative count are errors; _ shifts left by b for b >= 0 and right by -b otherwise;
     a left shift by more than 65536 bits (64 Ki) is refused (error 'too-complex') rather than computed;
   - & ^ | are the bitwise operations on two's-complement integers of unbounded width; ! is |;
   - grouping by ( ), < > or ^x ... x;
   - literals: bare digits are octal, a trailing dot means decimal, 0x/0o/0b and ^X/^O/^B/^D state the
     radix; a bare digit string containing 8 or 9 is an error; quote-c is the byte of c, doublequote-cd the word with c in
     the low byte; ^Rabc is the RADIX-50 word. *)
From Coq Require Import String Ascii List ZArith NArith Bool.
From Verif Require Import Base.Res Spec.ExprTokens.
Import ListNotations.
Open Scope string_scope.
Open Scope Z_scope.

(* ------------------------------------------------------------------------------------------ *)
(* operators *)
Inductive unop := UPlus | UNeg | UInv | UCompl.                     (*  +  -  ~  ^C  *)
Inductive binop := BMul | BDiv | BMod | BAdd | BSub | BShl | BShr | BLsh
                 | BAnd | BXor | BOr | BBang.                        (*  * / % + - << >> _ & ^ | !  *)

Definition all_unops : list unop := [UPlus; UNeg; UInv; UCompl].
Definition all_binops : list binop := [BMul; BDiv; BMod; BAdd; BSub; BShl; BShr; BLsh; BAnd; BXor; BOr; BBang].

Definition arith_error : res Z := Err ["arithmetic-error"].
(* the largest left-shift count that is carried out; beyond it the assembler refuses *)
Definition max_shift : Z := 65536.
Definition too_complex : res Z := Err ["too-complex"].

Definition sem_un (u : unop) (a : Z) : res Z :=
  match u with
  | UPlus => Ok a
  | UNeg => Ok (- a)
  | UInv | UCompl => Ok (Z.lnot a)            (* one's complement: -a-1 *)
  end.

Definition sem_bin (o : binop) (a b : Z) : res Z :=
  match o with
  | BMul => Ok (a * b)
  | BDiv => if b =? 0 then arith_error else Ok (a / b)          (* Z.div: floor *)
  | BMod => if b =? 0 then arith_error else Ok (a mod b)        (* Z.modulo: sign of the divisor *)
  | BAdd => Ok (a + b)
  | BSub => Ok (a - b)
  | BShl => if b <? 0 then arith_error else if max_shift <? b then too_complex else Ok (Z.shiftl a b)
  | BShr => if b <? 0 then arith_error else Ok (Z.shiftr a b)   (* arithmetic: floor (a / 2^b) *)
  | BLsh => if 0 <=? b then (if max_shift <? b then too_complex else Ok (Z.shiftl a b))
            else Ok (Z.shiftr a (- b))
  | BAnd => Ok (Z.land a b)
  | BXor => Ok (Z.lxor a b)
  | BOr | BBang => Ok (Z.lor a b)
  end.

(* precedence levels of C (ISO C operator table: 3 multiplicative, 4 additive, 5 shift,
   6 relational, 7 equality, 8 bitwise AND, 9 bitwise XOR, 10 bitwise OR); smaller binds tighter;
   every level associates to the left.  Prefix operators are level 2. *)
Definition cprec (o : binop) : nat :=
  match o with
  | BMul | BDiv | BMod => 3
  | BAdd | BSub => 4
  | BShl | BShr | BLsh => 5
  | BAnd => 8
  | BXor => 9
  | BOr | BBang => 10
  end%nat.
Definition cprec_prefix : nat := 2%nat.

Definition unop_text (u : unop) : string :=
  match u with UPlus => "+" | UNeg => "-" | UInv => "~" | UCompl => "^c" end.
Definition binop_text (o : binop) : string :=
  match o with
  | BMul => "*" | BDiv => "/" | BMod => "%" | BAdd => "+" | BSub => "-"
  | BShl => "<<" | BShr => ">>" | BLsh => "_" | BAnd => "&" | BXor => "^" | BOr => "|" | BBang => "!"
  end.

(* ------------------------------------------------------------------------------------------ *)
(* brackets *)
Inductive bracket := Paren | Angle | Caret (c : ascii).     (* ( )   < >   ^c ... c *)

(* the characters admitted after '^' as a bracket:  $ _ = [ ] \ { } | : / < > ?  *)
Definition caret_chars : list ascii :=
  ["$"; "_"; "="; "["; "]"; "\"; "{"; "}"; "|"; ":"; "/"; "<"; ">"; "?"]%char.

Definition open_text (b : bracket) : string :=
  match b with Paren => "(" | Angle => "<" | Caret c => String "^" (String c "") end.
Definition close_text (b : bracket) : string :=
  match b with Paren => ")" | Angle => ">" | Caret c => String c "" end.

(* ------------------------------------------------------------------------------------------ *)
(* positional notation *)
Open Scope N_scope.

(* digits of n in the given base, least significant first; fuel = number of bits of n *)
Fixpoint digits_lsd (fuel : nat) (base n : N) : list N :=
  match fuel with
  | O => []
  | S f => if n <? base then [n] else (n mod base) :: digits_lsd f base (n / base)
  end.
Definition digits (base n : N) : list N :=
  rev (digits_lsd (S (N.to_nat (N.log2 n))) base n).

(* the value of a digit string, most significant digit first (Horner) *)
Definition horner (base : N) (ds : list N) : N :=
  fold_left (fun acc d => acc * base + d) ds 0.

(* '0'..'9', then 'a'.. or 'A'.. *)
Definition digit_char (upper : bool) (d : N) : ascii :=
  if d <? 10 then ascii_of_N (48 + d)
  else ascii_of_N ((if upper then 55 else 87) + d).

Fixpoint string_of_digits (upper : bool) (ds : list N) : string :=
  match ds with
  | [] => EmptyString
  | d :: rest => String (digit_char upper d) (string_of_digits upper rest)
  end.

(* the ways a number can be spelled *)
Inductive numstyle :=
| SBareOct       (* 177      *)
| SDecDot        (* 127.     *)
| S0x | S0o | S0b            (* 0x7f 0o177 0b1111111 *)
| SCX | SCO | SCB | SCD.     (* ^X7f ^O177 ^B1111111 ^D127 *)

Definition style_base (st : numstyle) : N :=
  match st with
  | SBareOct | S0o | SCO => 8
  | SDecDot | SCD => 10
  | S0x | SCX => 16
  | S0b | SCB => 2
  end.

Definition style_prefix (st : numstyle) (upper : bool) : string :=
  match st with
  | SBareOct | SDecDot => ""
  | S0x => if upper then "0X" else "0x"
  | S0o => if upper then "0O" else "0o"
  | S0b => if upper then "0B" else "0b"
  | SCX => if upper then "^X" else "^x"
  | SCO => if upper then "^O" else "^o"
  | SCB => if upper then "^B" else "^b"
  | SCD => if upper then "^D" else "^d"
  end%string.

Definition style_suffix (st : numstyle) : string :=
  match st with SDecDot => "." | _ => "" end%string.

(* spelling of a digit string / of a number in a style *)
Definition spell_digits (st : numstyle) (up_prefix up_digits : bool) (ds : list N) : string :=
  (style_prefix st up_prefix ++ string_of_digits up_digits ds ++ style_suffix st)%string.
Definition spell (st : numstyle) (up_prefix up_digits : bool) (n : N) : string :=
  spell_digits st up_prefix up_digits (digits (style_base st) n).

(* ------------------------------------------------------------------------------------------ *)
(* literals *)
Inductive literal :=
| LNum (neg : bool) (st : numstyle) (up_prefix up_digits : bool) (n : N)   (* value: n, or -n *)
| LBad89 (neg : bool) (ds : list N)      (* bare decimal digits, at least one of them 8 or 9: an error *)
| LChar1 (c : N)                         (* quote c *)
| LChar2 (c1 c2 : N)                     (* double-quote cd *)
| LRad50 (cs : list N).                  (* ^Rabc: one to three characters (code points), either case *)

(* RADIX-50 code of a character: blank 0, A-Z 1-26, $ 27, . 28, % 29, 0-9 30-39 (either case of letters) *)
Definition r50_code (c : N) : option N :=
  if c =? 32 then Some 0
  else if (65 <=? c) && (c <=? 90) then Some (c - 64)
  else if (97 <=? c) && (c <=? 122) then Some (c - 96)
  else if c =? 36 then Some 27
  else if c =? 46 then Some 28
  else if c =? 37 then Some 29
  else if (48 <=? c) && (c <=? 57) then Some (c - 18)
  else None.

(* a word holds three characters, left-justified and padded with blanks: c1*40^2 + c2*40 + c3 *)
Definition r50_word (cs : list N) : option N :=
  match map r50_code (cs ++ repeat 32 (3 - length cs)%nat) with
  | [Some a; Some b; Some c] => Some (a * 1600 + b * 40 + c)
  | _ => None
  end.

Definition is_bad89 (ds : list N) : bool :=
  negb (Nat.eqb (length ds) 0%nat) && forallb (fun d => d <? 10) ds && existsb (fun d => 8 <=? d) ds.

Inductive expr :=
| Lit (l : literal)
| Sym (s : string)
| Dot
| Un (u : unop) (e : expr)
| Bin (o : binop) (l r : expr)
| Group (b : bracket) (e : expr).

Section Eval.
(* [enc c]: the bytes of character c in the output charset, None if it has none *)
Variable enc : N -> option (list N).
Variable sym : string -> option Z.     (* values of symbols and labels *)
Variable dot : Z.                      (* value of '.' *)

Fixpoint enc_all (cs : list N) : option (list N) :=
  match cs with
  | [] => Some []
  | c :: rest => match enc c, enc_all rest with
                 | Some b, Some bs => Some (b ++ bs)%list
                 | _, _ => None end
  end.

(* the encoded bytes, low byte first, as a 16-bit word *)
Definition chars_value (cs : list N) : res Z :=
  match enc_all cs with
  | None => Err ["invalid-character"]
  | Some [] => Ok 0%Z
  | Some [b0] => Ok (Z.of_N b0)
  | Some [b0; b1] => Ok (Z.of_N b0 + 256 * Z.of_N b1)%Z
  | Some _ => Err ["too-long-string"]
  end.

Definition lit_value (l : literal) : res Z :=
  match l with
  | LNum neg _ _ _ n => Ok (if neg then (- Z.of_N n)%Z else Z.of_N n)
  | LBad89 _ _ => Err ["invalid-number"]
  | LChar1 c => chars_value [c]
  | LChar2 c1 c2 => chars_value [c1; c2]
  | LRad50 cs => match r50_word cs with Some v => Ok (Z.of_N v) | None => Err ["invalid-string"] end
  end.

(* ---------------------------------------------------------------------------------------- *)
(* expressions *)
Fixpoint eval (e : expr) : res Z :=
  match e with
  | Lit l => lit_value l
  | Sym s => match sym s with Some v => Ok v | None => Err ["undefined-symbol"] end
  | Dot => Ok dot
  | Un u x => do a <- eval x; sem_un u a
  | Bin o l r => do a <- eval l; do b <- eval r; sem_bin o a b
  | Group _ x => eval x
  end.
End Eval.

(* ------------------------------------------------------------------------------------------ *)
(* printing with the fewest brackets the C table allows *)
Definition paren (ts : list token) : list token := (TP "(" :: ts ++ [TP ")"])%list.

Definition lit_tokens (l : literal) : list token :=
  match l with
  | LNum neg st up ud n => ((if neg then [TP "-"] else []) ++ [TNum (spell st up ud n)])%list
  | LBad89 neg ds => ((if neg then [TP "-"] else []) ++ [TNum (string_of_digits false ds)])%list
  | LChar1 c => [TChar1 c]
  | LChar2 c1 c2 => [TChar2 c1 c2]
  | LRad50 cs => [TRad50 (string_of_list_ascii (map ascii_of_N cs))]
  end.

(* a number written without a sign: '-' in front of it would be read as part of the literal *)
Definition unsigned_number (l : literal) : bool :=
  match l with
  | LNum false _ _ _ _ | LBad89 false _ => true
  | _ => false
  end.

(* [lead]: the expression stands at the start of an operand or right after an opening bracket.
   The grammar of the assembler admits prefix operators only there, so anywhere else a prefixed
   operand is bracketed. *)
Fixpoint pr (lead : bool) (e : expr) : list token :=
  match e with
  | Lit l => lit_tokens l
  | Sym s => [TSym s]
  | Dot => [TDot]
  | Group b x => (TP (open_text b) :: pr true x ++ [TP (close_text b)])%list
  | Un u x =>
      let body :=
        TP (unop_text u) ::
        match x with
        | Un _ _ => pr true x
        | Bin _ _ _ => paren (pr true x)
        | Lit l => match u with
                   | UNeg => if unsigned_number l then paren (pr true x) else pr false x
                   | _ => pr false x
                   end
        | _ => pr false x
        end in
      if lead then body else paren body
  | Bin o l r =>
      (match l with
       | Bin ol _ _ => if (cprec o <? cprec ol)%nat then paren (pr true l) else pr lead l
       | _ => pr lead l
       end ++
       TP (binop_text o) ::
       match r with
       | Bin or _ _ => if (cprec or <? cprec o)%nat then pr false r else paren (pr true r)
       | _ => pr false r
       end)%list
  end.

Definition print_min (e : expr) : list token := pr true e.

(* ------------------------------------------------------------------------------------------ *)
(* which trees are expressions of the documented language *)
Definition first_char (s : string) : option ascii :=
  match s with String c _ => Some c | EmptyString => None end.

(* inside ^c ... c (at any depth) no operator may begin with the closing character c *)
Definition op_clear (terms : list ascii) (o : binop) : bool :=
  match first_char (binop_text o) with
  | Some c => negb (existsb (Ascii.eqb c) terms)
  | None => false
  end.

Definition lit_ok (l : literal) : bool :=
  match l with
  | LNum _ _ _ _ _ => true
  | LBad89 _ ds => is_bad89 ds
  | LChar1 _ | LChar2 _ _ => true
  | LRad50 cs => negb (Nat.eqb (length cs) 0%nat) && Nat.leb (length cs) 3%nat
                 && forallb (fun c => match r50_code c with Some _ => negb (c =? 32) | None => false end) cs
  end.

Fixpoint wf (terms : list ascii) (e : expr) : bool :=
  match e with
  | Lit l => lit_ok l
  | Sym _ | Dot => true
  | Un _ x => wf terms x
  | Bin o l r => op_clear terms o && wf terms l && wf terms r
  | Group (Caret c) x => existsb (Ascii.eqb c) caret_chars && wf (c :: terms) x
  | Group _ x => wf terms x
  end.
