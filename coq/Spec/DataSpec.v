(* C06 -- what "data directives store exactly the stated value or refuse" means.
   Frozen text: independent of the code's representation, of Gen/ and of Model/.
   A directive at an address either MUST be refused (an error, no image) or MUST produce an
   image that passes [allowed].  [meets] judges an observation of either kind. *)
From Coq Require Import List ZArith NArith Bool.
Import ListNotations.
Open Scope Z_scope.

(* k bytes, least significant first, of a non-negative number *)
Fixpoint le_bytes (k : nat) (v : Z) : list Z :=
  match k with
  | O => []
  | S k' => (v mod 256) :: le_bytes k' (v / 256)
  end.

Inductive width := W8 | W16 | W32.
Definition bits (w : width) : Z := match w with W8 => 8 | W16 => 16 | W32 => 32 end.
Definition nbytes (w : width) : nat := match w with W8 => 1%nat | W16 => 2%nat | W32 => 4%nat end.

(* the magnitude fits the field *)
Definition fits (w : width) (v : Z) : bool := Z.abs v <? 2 ^ bits w.

(* the stated value reduced modulo 2^n, little-endian; a double word is its high word first,
   then its low word, each little-endian *)
Definition value_bytes (w : width) (v : Z) : list Z :=
  let r := v mod 2 ^ bits w in
  match w with
  | W8 => le_bytes 1 r
  | W16 => le_bytes 2 r
  | W32 => le_bytes 2 (r / 65536) ++ le_bytes 2 (r mod 65536)
  end.

Definition zero_bytes (n : nat) : list Z := repeat 0 n.
Definition all_zero (bs : list Z) : bool := forallb (Z.eqb 0) bs.
Definition zlen (bs : list Z) : Z := Z.of_nat (length bs).

Fixpoint bytes_eqb (a b : list Z) : bool :=
  match a, b with
  | [], [] => true
  | x :: xs, y :: ys => (x =? y) && bytes_eqb xs ys
  | _, _ => false
  end.

(* a piece of an .ascii operand: a string (code points) or a <n> byte *)
Inductive chunk := Str (s : list N) | Code (n : Z).

(* .byte / .word / .dword with their evaluated operands ([] = no operand written);
   an implicit word list; .ascii (z = false) / .asciz (z = true); fills *)
Inductive sdir :=
| SData (w : width) (vs : list Z)
| SWords (vs : list Z)
| SAscii (z : bool) (cs : list chunk)
| SBlkb (n : Z)
| SBlkw (n : Z)
| SEven
| SOdd
| SAlign (c : Z).

Section WithCodec.
(* the selected output charset: bytes of a string, or None when some character is unencodable *)
Variable enc : list N -> option (list Z).

Definition chunk_bytes (c : chunk) : option (list Z) :=
  match c with
  | Str s => enc s
  | Code n => if (0 <=? n) && (n <? 256) then Some [n] else None
  end.

Fixpoint chunks_bytes (cs : list chunk) : option (list Z) :=
  match cs with
  | [] => Some []
  | c :: rest =>
      match chunk_bytes c, chunks_bytes rest with
      | Some a, Some b => Some (a ++ b)
      | _, _ => None
      end
  end.

Definition odd_addr (addr : Z) : bool := addr mod 2 =? 1.

(* the directive must not produce an image at this address *)
Definition must_refuse (d : sdir) (addr : Z) : bool :=
  match d with
  | SData w vs => (match w with W8 => false | _ => odd_addr addr end) || negb (forallb (fits w) vs)
  | SWords vs => odd_addr addr || negb (forallb (fits W16) vs)
  | SAscii _ cs => match chunks_bytes cs with Some _ => false | None => true end
  | SBlkb n | SBlkw n => (n <? 0) || (65536 <=? n)
  | SEven | SOdd => false
  | SAlign c => (c <=? 0) || (65536 <=? c)   (* a count is a 16-bit quantity, as for .blkb / .blkw; 0 aligns to nothing *)
  end.

(* when it need not be refused: is [bs] exactly the image the directive states? *)
Definition allowed (d : sdir) (addr : Z) (bs : list Z) : bool :=
  match d with
  | SData w [] => bytes_eqb bs (zero_bytes (nbytes w))
  | SData w vs => bytes_eqb bs (concat (map (value_bytes w) vs))
  | SWords vs => bytes_eqb bs (concat (map (value_bytes W16) vs))
  | SAscii z cs =>
      match chunks_bytes cs with
      | Some body => bytes_eqb bs (body ++ (if z then [0] else []))
      | None => false
      end
  | SBlkb n => all_zero bs && (zlen bs =? n)
  | SBlkw n => all_zero bs && (zlen bs =? 2 * n)
  | SEven => all_zero bs && (zlen bs <=? 1) && ((addr + zlen bs) mod 2 =? 0)
  | SOdd => all_zero bs && (zlen bs <=? 1) && ((addr + zlen bs) mod 2 =? 1)
  | SAlign c => all_zero bs && (zlen bs <? c) && ((addr + zlen bs) mod c =? 0)
  end.

(* what was seen: an image without any error diagnostic / a refusal (error diagnostics, the
   assembly fails) / a Python exception that is not a diagnostic *)
Inductive observation := Image (bs : list Z) | Refused | Crashing.

Definition meets (d : sdir) (addr : Z) (o : observation) : bool :=
  match o with
  | Image bs => negb (must_refuse d addr) && allowed d addr bs
  | Refused => must_refuse d addr
  | Crashing => false
  end.

End WithCodec.

(* ---- string syntax: the canonical spelling of a string between quotes -------------------------
   Every escape form of the language is used: backslash followed by n, r, t, backslash, double
   quote, single quote or slash, and backslash x HH (two hex digits, for the remaining
   control characters and 0x7F-0xFF); every other character stands for itself.  The property asks
   that reading this spelling back gives the string. *)
Open Scope N_scope.
Definition hexdigit (k : N) : N := if k <? 10 then 48 + k else 87 + k.

Definition escape_char (c : N) : list N :=
  if c =? 10 then [92; 110] else
  if c =? 13 then [92; 114] else
  if c =? 9 then [92; 116] else
  if c =? 92 then [92; 92] else
  if (c =? 34) || (c =? 39) || (c =? 47) then [92; c] else
  if (c <? 32) || ((127 <=? c) && (c <? 256)) then [92; 120; hexdigit (c / 16); hexdigit (c mod 16)] else
  [c].

Definition escape (s : list N) : list N := flat_map escape_char s.
