(* C13 -- independent readers of the two plain containers.
   raw: the file is the image bytes.
   bin: base address and length as little-endian 16-bit words, then exactly <length> bytes. *)
From Coq Require Import List ZArith Bool.
Import ListNotations.
Open Scope Z_scope.

Definition byte_in_range (b : Z) : bool := (0 <=? b) && (b <? 256).

(* (base, length, code) *)
Definition parse_bin (f : list Z) : option (Z * Z * list Z) :=
  match f with
  | b0 :: b1 :: l0 :: l1 :: code =>
      if forallb byte_in_range f && (l0 + 256 * l1 =? Z.of_nat (length code))
      then Some (b0 + 256 * b1, l0 + 256 * l1, code)
      else None
  | _ => None
  end.

Definition parse_raw (f : list Z) : option (list Z) :=
  if forallb byte_in_range f then Some f else None.
