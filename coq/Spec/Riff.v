(* C13 -- an independent reader of RIFF/WAVE files holding uncompressed PCM.
   Frozen text: written from the RIFF/WAVE layout, not from pdpy11's struct format string.

     offset  size  field
        0     4    "RIFF"
        4     4    number of bytes that follow this field (file length - 8), little endian
        8     4    "WAVE"
       12     4    "fmt "
       16     4    size of the format chunk: 16 for plain PCM
       20     2    format tag: 1 = PCM
       22     2    channels
       24     4    sample rate (frames per second)
       28     4    byte rate   = sample rate * block align
       32     2    block align = channels * bits / 8
       34     2    bits per sample
       36     4    "data"
       40     4    number of sample bytes that follow
       44     -    the samples, up to the end of the file

   [parse_wav] accepts exactly the files in which every one of these fields is present and
   consistent with the others and with the real lengths, and returns
   (sample rate, channels, bits per sample, sample bytes). *)
From Coq Require Import List ZArith Bool.
Import ListNotations.
Open Scope Z_scope.

Definition is_byte (b : Z) : bool := (0 <=? b) && (b <? 256).

(* value of a little-endian unsigned field *)
Fixpoint le_val (bs : list Z) : Z :=
  match bs with
  | [] => 0
  | b :: r => b + 256 * le_val r
  end.

(* the first n bytes and the rest; None when fewer than n are left *)
Fixpoint take (n : nat) (l : list Z) : option (list Z * list Z) :=
  match n with
  | O => Some ([], l)
  | S k => match l with
           | [] => None
           | x :: r => match take k r with
                       | Some (a, b) => Some (x :: a, b)
                       | None => None
                       end
           end
  end.

Fixpoint bytes_eqb (a b : list Z) : bool :=
  match a, b with
  | [], [] => true
  | x :: a', y :: b' => (x =? y) && bytes_eqb a' b'
  | _, _ => false
  end.

Definition tag_RIFF : list Z := [82; 73; 70; 70].
Definition tag_WAVE : list Z := [87; 65; 86; 69].
Definition tag_fmt  : list Z := [102; 109; 116; 32].
Definition tag_data : list Z := [100; 97; 116; 97].

Definition len (l : list Z) : Z := Z.of_nat (length l).

Notation "'let?' ( a , b ) := e 'in' k" :=
  (match e with Some (a, b) => k | None => None end)
  (at level 200, a name, b name, e at level 100, k at level 200).

Definition guard (c : bool) (k : option (Z * Z * Z * list Z)) : option (Z * Z * Z * list Z) :=
  if c then k else None.

Definition parse_wav (f : list Z) : option (Z * Z * Z * list Z) :=
  guard (forallb is_byte f) (
  let? (riff, r1)   := take 4 f in
  let? (size, r2)   := take 4 r1 in
  let? (wave, r3)   := take 4 r2 in
  let? (fmt, r4)    := take 4 r3 in
  let? (fsize, r5)  := take 4 r4 in
  let? (ftag, r6)   := take 2 r5 in
  let? (chans, r7)  := take 2 r6 in
  let? (rate, r8)   := take 4 r7 in
  let? (brate, r9)  := take 4 r8 in
  let? (align, r10) := take 2 r9 in
  let? (bits, r11)  := take 2 r10 in
  let? (data, r12)  := take 4 r11 in
  let? (dsize, smp) := take 4 r12 in
  let channels := le_val chans in
  let depth := le_val bits in
  let block := le_val align in
  guard (bytes_eqb riff tag_RIFF) (
  guard (le_val size =? len r2) (
  guard (bytes_eqb wave tag_WAVE) (
  guard (bytes_eqb fmt tag_fmt) (
  guard (le_val fsize =? 16) (
  guard (le_val ftag =? 1) (
  guard (1 <=? channels) (
  guard (1 <=? le_val rate) (
  guard ((1 <=? depth) && (depth mod 8 =? 0)) (
  guard (block =? channels * (depth / 8)) (
  guard (le_val brate =? le_val rate * block) (
  guard (bytes_eqb data tag_data) (
  guard (le_val dsize =? len smp) (
  guard (len smp mod block =? 0) (
  Some (le_val rate, channels, depth, smp)))))))))))))))).
