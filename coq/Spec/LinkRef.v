(* Reference meaning of a link-base expression (C12): plain integer arithmetic.

   An expression is evaluated over unbounded integers once every label has a numeric address.
   This file knows nothing about polynomials, promises or evaluation order: it is what
   "the arithmetic value of that expression" in the property text means.  Frozen text.

   Operators (pdpy11 spelling -> meaning):
     + - unary-  *          ring operations on Z
     /  %                   floor division and its remainder (sign of the divisor); a zero divisor is
                            the reported error `arithmetic-error`
     &  |  ^  ~             two's-complement bit operations on unbounded integers
     _                      a _ b = a * 2^b for b >= 0, floor (a / 2^-b) for b < 0
     <<  >>                 a << b = a * 2^b (b >= 0); a >> b = floor (a / 2^b) (b >= 0);
                            a negative count is the reported error `arithmetic-error` *)
From Coq Require Import String List ZArith Bool.
From Verif Require Import Base.Res.
Import ListNotations.
Open Scope Z_scope.

Inductive awop := OpDiv | OpMod | OpAnd | OpOr | OpXor | OpLsh.

Inductive lexpr :=
| LConst (k : Z)
| LLabel (i : nat)                 (* the i-th label of the program (all linked files, in order) *)
| LAdd (a b : lexpr)
| LSub (a b : lexpr)
| LNeg (a : lexpr)
| LMul (a b : lexpr)
| LAw (op : awop) (a b : lexpr)
| LInv (a : lexpr)
| LShl (a b : lexpr)
| LShr (a b : lexpr).

Definition awz (op : awop) (x y : Z) : res Z :=
  match op with
  | OpDiv => if y =? 0 then Err ["arithmetic-error"%string] else Ok (x / y)
  | OpMod => if y =? 0 then Err ["arithmetic-error"%string] else Ok (x mod y)
  | OpAnd => Ok (Z.land x y)
  | OpOr => Ok (Z.lor x y)
  | OpXor => Ok (Z.lxor x y)
  | OpLsh => Ok (if 0 <=? y then x * 2 ^ y else Z.shiftr x (- y))
  end.

Definition shlz (x y : Z) : res Z :=
  if 0 <=? y then Ok (x * 2 ^ y) else Err ["arithmetic-error"%string].
Definition shrz (x y : Z) : res Z :=
  if 0 <=? y then Ok (Z.shiftr x y) else Err ["arithmetic-error"%string].

(* env: the numeric address of every label *)
Fixpoint zeval (env : list Z) (e : lexpr) : res Z :=
  match e with
  | LConst k => Ok k
  | LLabel i => match nth_error env i with Some a => Ok a | None => Err ["undefined-symbol"%string] end
  | LAdd a b => do x <- zeval env a; do y <- zeval env b; Ok (x + y)
  | LSub a b => do x <- zeval env a; do y <- zeval env b; Ok (x - y)
  | LNeg a => do x <- zeval env a; Ok (- x)
  | LMul a b => do x <- zeval env a; do y <- zeval env b; Ok (x * y)
  | LAw op a b => do x <- zeval env a; do y <- zeval env b; awz op x y
  | LInv a => do x <- zeval env a; Ok (Z.lnot x)
  | LShl a b => do x <- zeval env a; do y <- zeval env b; shlz x y
  | LShr a b => do x <- zeval env a; do y <- zeval env b; shrz x y
  end.

(* a 16-bit signed-magnitude field: |v| < 2^16 is accepted and stored modulo 2^16 *)
Definition fits16 (v : Z) : bool := (-65536 <? v) && (v <? 65536).

(* "the base is what the source says": the observed base b is the value of the link expression
   when every label sits at b + its offset, reduced to 16 bits *)
Definition base_is_value (offs : list Z) (e : lexpr) (b : Z) : bool :=
  match zeval (map (fun o => b + o) offs) e with
  | Ok v => fits16 v && (v mod 65536 =? b)
  | _ => false
  end.
