(* RADIX-50 as DEC defines it (PDP-11 MACRO-11 manual, "RADIX-50 character set"):
   code 0 = space, 1..26 = A..Z, 27 = $, 28 = ., 29 = % (the "unused" code), 30..39 = 0..9;
   a word holds three codes as (c1*40 + c2)*40 + c3.
   Frozen text, written out independently of pdpy11/radix50.py.  Code points are N, codes and words Z. *)
From Coq Require Import List ZArith NArith Bool.
Import ListNotations.

Definition alphabet : list N :=
  [32;                                                                     (* space *)
   65; 66; 67; 68; 69; 70; 71; 72; 73; 74; 75; 76; 77;                     (* A..M *)
   78; 79; 80; 81; 82; 83; 84; 85; 86; 87; 88; 89; 90;                     (* N..Z *)
   36; 46; 37;                                                             (* $ . % *)
   48; 49; 50; 51; 52; 53; 54; 55; 56; 57]%N.                              (* 0..9 *)

Open Scope Z_scope.

(* the standard unpacking algorithm *)
Definition unpack (w : Z) : Z * Z * Z := (w / 1600, (w / 40) mod 40, w mod 40).

Definition unpack_list (w : Z) : list Z := let '(a, b, c) := unpack w in [a; b; c].

(* all codes of a sequence of words *)
Definition unpack_all (ws : list Z) : list Z := flat_map unpack_list ws.

(* the character a code stands for; None outside 0..39 *)
Definition char_of_code (k : Z) : option N :=
  if (0 <=? k) && (k <? 40) then nth_error alphabet (Z.to_nat k) else None.

Fixpoint chars_of_codes (ks : list Z) : option (list N) :=
  match ks with
  | [] => Some []
  | k :: rest =>
      match char_of_code k, chars_of_codes rest with
      | Some c, Some cs => Some (c :: cs)
      | _, _ => None
      end
  end.

(* words -> text *)
Definition decode (ws : list Z) : option (list N) := chars_of_codes (unpack_all ws).

(* case folding of the property text, for the characters the alphabet is made of: a..z -> A..Z *)
Definition fold_case (c : N) : N :=
  if ((97 <=? c) && (c <=? 122))%N then (c - 32)%N else c.

Definition in_alphabet (c : N) : bool := existsb (N.eqb c) alphabet.

(* a character that may appear in a RADIX-50 string, in either case *)
Definition accepted_char (c : N) : bool := in_alphabet (fold_case c).

(* pad a text with spaces to a multiple of three characters *)
Definition pad_len (n : nat) : nat := (3 - n mod 3) mod 3.
Definition pad3 {A} (x : A) (l : list A) : list A := l ++ repeat x (pad_len (length l)).

(* what the words of a RADIX-50 string must decode to *)
Definition expected_text (s : list N) : list N := pad3 32%N (map fold_case s).
