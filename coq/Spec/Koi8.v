(* KOI8-R, upper half 0xC0..0xFF, as Unicode code points.  Frozen text: written from the KOI8-R
   standard (RFC 1489) via Python's own koi8-r codec, not from pdpy11. *)
From Coq Require Import List NArith Bool.
Import ListNotations.
Open Scope N_scope.

Definition koi8r_c0_ff : list N :=
  [1102; 1072; 1073; 1094; 1076; 1077; 1092; 1075; 1093; 1080; 1081; 1082; 1083; 1084; 1085; 1086;
   1087; 1103; 1088; 1089; 1090; 1091; 1078; 1074; 1100; 1099; 1079; 1096; 1101; 1097; 1095; 1098;
   1070; 1040; 1041; 1062; 1044; 1045; 1060; 1043; 1061; 1048; 1049; 1050; 1051; 1052; 1053; 1054;
   1055; 1071; 1056; 1057; 1058; 1059; 1046; 1042; 1068; 1067; 1047; 1064; 1069; 1065; 1063; 1066].

(* What C14 demands of a byte<->character map given as the two observable functions. *)
Definition koi8r (b : N) : option N :=
  if (192 <=? b) && (b <? 256) then nth_error koi8r_c0_ff (N.to_nat (b - 192)) else None.

Definition ascii_range (b : N) : bool := b <=? 126.
