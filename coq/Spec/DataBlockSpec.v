(* C06, continued -- the same property for (a) values written as character literals and (b) directives
   placed one after another, also inside `.repeat`, where the address of each copy is where the bytes
   before it end.  Frozen text like Spec/DataSpec.v, which it only extends: [stated_image] is the unique
   image [DataSpec.allowed] accepts (proved in Proofs/DirectivesBlock.v), so nothing here is a new meaning. *)
From Coq Require Import List ZArith NArith Bool.
From Verif Require Import Spec.DataSpec.
Import ListNotations.
Open Scope Z_scope.

Section WithCodec.
Variable enc : list N -> option (list Z).

(* ---- character literals: a quote and one character, or a double quote and two characters, are the little-endian number made of the characters' bytes in the
   output charset; more than two bytes do not fit the 16-bit literal, an unencodable character has no
   bytes: no value, the directive using it must be refused *)
Definition lit_value (chars : list N) : option Z :=
  match enc chars with
  | Some [] => Some 0
  | Some [b0] => Some b0
  | Some [b0; b1] => Some (b0 + 256 * b1)
  | _ => None
  end.

Inductive soperand := SVal (v : Z) | SLit (chars : list N).

Definition operand_value (o : soperand) : option Z :=
  match o with SVal v => Some v | SLit cs => lit_value cs end.

Fixpoint operands_values (ops : list soperand) : option (list Z) :=
  match ops with
  | [] => Some []
  | o :: rest =>
      match operand_value o, operands_values rest with
      | Some v, Some vs => Some (v :: vs)
      | _, _ => None
      end
  end.

(* ---- the image a directive states at an address (None: it must be refused there) ---------------- *)
(* least k >= 0 with (addr + k) mod c = 0, found by counting up *)
Definition align_gap (addr c : Z) : Z :=
  match find (fun k => (addr + Z.of_nat k) mod c =? 0) (seq 0 (Z.to_nat c)) with
  | Some k => Z.of_nat k
  | None => 0
  end.

Definition stated_image (d : sdir) (addr : Z) : option (list Z) :=
  if must_refuse enc d addr then None else
  Some match d with
       | SData w [] => zero_bytes (nbytes w)
       | SData w vs => concat (map (value_bytes w) vs)
       | SWords vs => concat (map (value_bytes W16) vs)
       | SAscii z cs => match chunks_bytes enc cs with Some body => body ++ (if z then [0] else []) | None => [] end
       | SBlkb n => zero_bytes (Z.to_nat n)
       | SBlkw n => zero_bytes (Z.to_nat (2 * n))
       | SEven => if addr mod 2 =? 0 then [] else [0]
       | SOdd => if addr mod 2 =? 1 then [] else [0]
       | SAlign c => zero_bytes (Z.to_nat (align_gap addr c))
       end.

(* a directive whose values may be written as literals *)
Inductive sdirl := SPlain (d : sdir) | SDataL (w : width) (ops : list soperand).

Definition stated_imagel (d : sdirl) (addr : Z) : option (list Z) :=
  match d with
  | SPlain d => stated_image d addr
  | SDataL w ops => match operands_values ops with Some vs => stated_image (SData w vs) addr | None => None end
  end.

(* directives one after another: each at the address where the bytes before it end *)
Fixpoint seq_image (ds : list sdirl) (addr : Z) : option (list Z) :=
  match ds with
  | [] => Some []
  | d :: rest =>
      match stated_imagel d addr with
      | None => None
      | Some bs =>
          match seq_image rest (addr + zlen bs) with
          | None => None
          | Some tl => Some (bs ++ tl)
          end
      end
  end.

(* `.repeat n { body }` is the body written n times *)
Fixpoint rep_image (n : nat) (body : list sdirl) (addr : Z) : option (list Z) :=
  match n with
  | O => Some []
  | S k =>
      match seq_image body addr with
      | None => None
      | Some bs =>
          match rep_image k body (addr + zlen bs) with
          | None => None
          | Some tl => Some (bs ++ tl)
          end
      end
  end.

Inductive sitem := SOne (d : sdirl) | SRepeat (n : Z) (body : list sdirl).

Definition item_image (it : sitem) (addr : Z) : option (list Z) :=
  match it with
  | SOne d => stated_imagel d addr
  | SRepeat n body => if n <? 0 then None else rep_image (Z.to_nat n) body addr
  end.

Fixpoint items_image (its : list sitem) (addr : Z) : option (list Z) :=
  match its with
  | [] => Some []
  | it :: rest =>
      match item_image it addr with
      | None => None
      | Some bs =>
          match items_image rest (addr + zlen bs) with
          | None => None
          | Some tl => Some (bs ++ tl)
          end
      end
  end.

(* the verdict on a whole program made of such items starting at [addr] *)
Definition meets_items (its : list sitem) (addr : Z) (o : observation) : bool :=
  match items_image its addr, o with
  | Some img, Image bs => bytes_eqb bs img
  | None, Refused => true
  | _, _ => false
  end.

End WithCodec.
