(* What "line:column of an offset" means, independently of pdpy11/context.py:
   walk over the characters before the offset, starting at line 1, column 1;
   a newline goes to column 1 of the next line, a tab advances four columns, anything else one.
   Characters are code points (N); lines and columns are Z.  Frozen text. *)
From Coq Require Import List ZArith NArith Bool.
Import ListNotations.
Open Scope Z_scope.

Definition NL : N := 10%N.
Definition TAB : N := 9%N.

Definition step (lc : Z * Z) (c : N) : Z * Z :=
  let '(line, col) := lc in
  if N.eqb c NL then (line + 1, 1)
  else if N.eqb c TAB then (line, col + 4)
  else (line, col + 1).

(* position after the given characters *)
Definition linecol (before : list N) : Z * Z := fold_left step before (1, 1).

(* position of offset [pos] in [code] *)
Definition linecol_at (code : list N) (pos : nat) : Z * Z := linecol (firstn pos code).

(* the lines of a text: "a\nb" has two lines, "a\n" has two (the second one empty), "" has one *)
Fixpoint split_lines (code : list N) : list (list N) :=
  match code with
  | [] => [[]]
  | c :: rest =>
      if N.eqb c NL then [] :: split_lines rest
      else match split_lines rest with
           | h :: t => (c :: h) :: t
           | [] => [[c]]
           end
  end.

(* lexicographic order on positions *)
Definition lc_le (a b : Z * Z) : Prop := fst a < fst b \/ (fst a = fst b /\ snd a <= snd b).
Definition lc_leb (a b : Z * Z) : bool := (fst a <? fst b) || ((fst a =? fst b) && (snd a <=? snd b)).
