(* Spec/PDP11.v -- what the PDP-11 does with instruction words, written from the architecture
   (KD11 base set, EIS, FIS, CIS, FP11; the 1801VM2 / LSI-11 / maintenance rows are frozen text
   copied once, there is no source for them independent of the repository).

   Representation deliberately unlike pdpy11's pattern strings: a numeric table
   (operation, format class, base opcode as six octal digits), a decoder that finds the row by
   arithmetic on the word, extracts the fields of the format, consumes extension words and turns
   PC-relative displacements and branch fields into absolute addresses modulo 2^16.

   Second half: the meaning of the *source-level* operand forms ([sem_operand]) and of the 252
   mnemonics ([canon]); [expect m ops addr] is the operation a one-line program denotes, or None
   when the program is not a legal instruction.  Frozen text: never regenerated. *)
From Coq Require Import ZArith List String Ascii Bool.
Import ListNotations.
Open Scope Z_scope.

Definition o6 (a b c d e f : Z) : Z := ((((a * 8 + b) * 8 + c) * 8 + d) * 8 + e) * 8 + f.
Definition wrap16 (a : Z) : Z := a mod 65536.
Definition is_word (w : Z) : bool := (0 <=? w) && (w <? 65536).

(* ------------------------------------------------------------------------------------------ *)
(* decoded operands *)
Inductive soperand : Type :=
| SReg (r : Z)                    (* Rn                    mode 0 *)
| SDef (r : Z)                    (* (Rn)                  mode 1 *)
| SInc (r : Z)                    (* (Rn)+                 mode 2, n <> 7 *)
| SIncDef (r : Z)                 (* @(Rn)+                mode 3, n <> 7 *)
| SDec (r : Z)                    (* -(Rn)                 mode 4 *)
| SDecDef (r : Z)                 (* @-(Rn)                mode 5 *)
| SIdx (x r : Z)                  (* X(Rn)                 mode 6, n <> 7; X is the extension word *)
| SIdxDef (x r : Z)               (* @X(Rn)                mode 7, n <> 7 *)
| SImm (v : Z)                    (* #v  = (PC)+           mode 27 *)
| SAbs (a : Z)                    (* @#a = @(PC)+          mode 37 *)
| SRel (ea : Z)                   (* X(PC): the effective address, not the displacement *)
| SRelDef (ea : Z)                (* @X(PC): address of the pointer *)
| SAcc (n : Z)                    (* floating accumulator *)
| SNum (n : Z)                    (* inline number: trap / emt / spl / mark / xfc *)
| STarget (a : Z).                (* branch / sob destination address *)

(* raw fields of the first word, in operand order *)
Inductive field : Type :=
| KReg (v : Z) | KRM (v : Z) | KFpRM (v : Z) | KAcc (v : Z) | KBr (v : Z) | KSob (v : Z) | KNum (v : Z).

Inductive format : Type :=
| F0                 (* no operand *)
| FReg               (* ......rrr                rts, fadd... *)
| FNum (bits : Z) (neg_ok : bool)   (* low [bits] bits are a number; neg_ok: see [kinds_of] *)
| FDst               (* ....dddddd                single operand *)
| FDouble            (* ssssssdddddd              double operand *)
| FRegDst            (* rrrdddddd  written r,dst  jsr xor *)
| FSrcReg            (* rrrssssss  written src,r  mul div ash ashc *)
| FBranch            (* 8-bit signed word offset *)
| FSob               (* rrrnnnnnn  written r,target; 6-bit backward word offset *)
| FFp                (* ....ffffff                one floating operand *)
| FFpSrcAc           (* aaffffff   written fsrc,ac *)
| FFpAcDst           (* aaffffff   written ac,fdst *)
| FAcDst             (* aadddddd   written ac,dst (integer destination) *)
| FSrcAc.            (* aassssss   written src,ac (integer source) *)

(* number of opcode words a row covers: 2 ^ (number of low bits that belong to operand fields) *)
Definition fsize (f : format) : Z :=
  match f with
  | F0 => 1 | FReg => 8 | FNum b _ => 2 ^ b | FDst => 64 | FDouble => 4096 | FRegDst => 512 | FSrcReg => 512
  | FBranch => 256 | FSob => 512 | FFp => 64 | FFpSrcAc => 256 | FFpAcDst => 256 | FAcDst => 256 | FSrcAc => 256
  end.

Definition fields_of (f : format) (w : Z) : list field :=
  match f with
  | F0 => []
  | FReg => [KReg (w mod 8)]
  | FNum b _ => [KNum (w mod 2 ^ b)]
  | FDst => [KRM (w mod 64)]
  | FDouble => [KRM (w / 64 mod 64); KRM (w mod 64)]
  | FRegDst => [KReg (w / 64 mod 8); KRM (w mod 64)]
  | FSrcReg => [KRM (w mod 64); KReg (w / 64 mod 8)]
  | FBranch => [KBr (w mod 256)]
  | FSob => [KReg (w / 64 mod 8); KSob (w mod 64)]
  | FFp => [KFpRM (w mod 64)]
  | FFpSrcAc => [KFpRM (w mod 64); KAcc (w / 64 mod 4)]
  | FFpAcDst => [KAcc (w / 64 mod 4); KFpRM (w mod 64)]
  | FAcDst => [KAcc (w / 64 mod 4); KRM (w mod 64)]
  | FSrcAc => [KRM (w mod 64); KAcc (w / 64 mod 4)]
  end.

Open Scope string_scope.
Open Scope Z_scope.

Definition row : Type := (string * format * Z)%type.

(* condition-code operators 000241..000257 (clear) and 000261..000277 (set): bit 3 = N, 2 = Z,
   1 = V, 0 = C.  000240 is nop; 000260 has no mnemonic. *)
Definition cc_name (set : bool) (bits : Z) : string :=
  ((if set then "se" else "cl") ++
   (if Z.testbit bits 3 then "n" else "") ++ (if Z.testbit bits 2 then "z" else "") ++
   (if Z.testbit bits 1 then "v" else "") ++ (if Z.testbit bits 0 then "c" else ""))%string.

Definition cc_rows : list row :=
  (map (fun b => (cc_name false b, F0, o6 0 0 0 2 4 0 + b)) [1;2;3;4;5;6;7;8;9;10;11;12;13;14;15] ++
  map (fun b => (cc_name true b, F0, o6 0 0 0 2 6 0 + b)) [1;2;3;4;5;6;7;8;9;10;11;12;13;14;15])%list.

(* commercial instruction set: register form 0760xx, inline form 0761xx named with a final i *)
Definition cis_low : list (string * Z) :=
  [ ("movc", 24); ("movrc", 25); ("movtc", 26);
    ("locc", 32); ("skpc", 33); ("scanc", 34); ("spanc", 35); ("cmpc", 36); ("matc", 37);
    ("addn", 40); ("subn", 41); ("cmpn", 42); ("cvtnl", 43); ("cvtpn", 44); ("cvtnp", 45); ("ashn", 46); ("cvtln", 47);
    ("addp", 56); ("subp", 57); ("cmpp", 58); ("cvtpl", 59); ("mulp", 60); ("divp", 61); ("ashp", 62); ("cvtlp", 63) ].
Definition cis_rows : list row :=
  (map (fun nl => (fst nl, F0, o6 0 7 6 0 0 0 + snd nl)) cis_low ++
  map (fun nl => ((fst nl ++ "i")%string, F0, o6 0 7 6 1 0 0 + snd nl)) cis_low)%list.

Definition base_rows : list row :=
  [ ("halt", F0, o6 0 0 0 0 0 0); ("wait", F0, o6 0 0 0 0 0 1); ("rti", F0, o6 0 0 0 0 0 2);
    ("bpt", F0, o6 0 0 0 0 0 3); ("iot", F0, o6 0 0 0 0 0 4); ("reset", F0, o6 0 0 0 0 0 5);
    ("rtt", F0, o6 0 0 0 0 0 6); ("mfpt", F0, o6 0 0 0 0 0 7);
    (* 1801VM2 (frozen from the repository) *)
    ("start", F0, o6 0 0 0 0 1 2); ("step", F0, o6 0 0 0 0 1 6);
    ("rd", F0, o6 0 0 0 0 2 0); ("urd", F0, o6 0 0 0 0 2 1); ("rdpc", F0, o6 0 0 0 0 2 2); ("rdps", F0, o6 0 0 0 0 2 4);
    ("uwr", F0, o6 0 0 0 0 3 1); ("wrpc", F0, o6 0 0 0 0 3 2); ("wrps", F0, o6 0 0 0 0 3 4);
    ("jmp", FDst, o6 0 0 0 1 0 0);
    ("rts", FReg, o6 0 0 0 2 0 0);
    (* LSI-11 reserved (frozen) *)
    ("medlsi", FReg, o6 0 0 0 2 1 0); ("u3000", F0, o6 0 0 0 2 2 0);
    ("spl", FNum 3 false, o6 0 0 0 2 3 0);
    ("nop", F0, o6 0 0 0 2 4 0);
    ("swab", FDst, o6 0 0 0 3 0 0);
    ("br", FBranch, o6 0 0 0 4 0 0); ("bne", FBranch, o6 0 0 1 0 0 0); ("beq", FBranch, o6 0 0 1 4 0 0);
    ("bge", FBranch, o6 0 0 2 0 0 0); ("blt", FBranch, o6 0 0 2 4 0 0); ("bgt", FBranch, o6 0 0 3 0 0 0);
    ("ble", FBranch, o6 0 0 3 4 0 0);
    ("jsr", FRegDst, o6 0 0 4 0 0 0);
    ("clr", FDst, o6 0 0 5 0 0 0); ("com", FDst, o6 0 0 5 1 0 0); ("inc", FDst, o6 0 0 5 2 0 0);
    ("dec", FDst, o6 0 0 5 3 0 0); ("neg", FDst, o6 0 0 5 4 0 0); ("adc", FDst, o6 0 0 5 5 0 0);
    ("sbc", FDst, o6 0 0 5 6 0 0); ("tst", FDst, o6 0 0 5 7 0 0);
    ("ror", FDst, o6 0 0 6 0 0 0); ("rol", FDst, o6 0 0 6 1 0 0); ("asr", FDst, o6 0 0 6 2 0 0);
    ("asl", FDst, o6 0 0 6 3 0 0); ("mark", FNum 6 false, o6 0 0 6 4 0 0); ("mfpi", FDst, o6 0 0 6 5 0 0);
    ("mtpi", FDst, o6 0 0 6 6 0 0); ("sxt", FDst, o6 0 0 6 7 0 0);
    ("csm", FDst, o6 0 0 7 0 0 0); ("tstset", FDst, o6 0 0 7 2 0 0); ("wrtlck", FDst, o6 0 0 7 3 0 0);
    ("mov", FDouble, o6 0 1 0 0 0 0); ("cmp", FDouble, o6 0 2 0 0 0 0); ("bit", FDouble, o6 0 3 0 0 0 0);
    ("bic", FDouble, o6 0 4 0 0 0 0); ("bis", FDouble, o6 0 5 0 0 0 0); ("add", FDouble, o6 0 6 0 0 0 0);
    ("mul", FSrcReg, o6 0 7 0 0 0 0); ("div", FSrcReg, o6 0 7 1 0 0 0); ("ash", FSrcReg, o6 0 7 2 0 0 0);
    ("ashc", FSrcReg, o6 0 7 3 0 0 0); ("xor", FRegDst, o6 0 7 4 0 0 0);
    ("fadd", FReg, o6 0 7 5 0 0 0); ("fsub", FReg, o6 0 7 5 0 1 0); ("fmul", FReg, o6 0 7 5 0 2 0); ("fdiv", FReg, o6 0 7 5 0 3 0);
    ("l2dr", FReg, o6 0 7 6 0 2 0); ("l3dr", FReg, o6 0 7 6 0 6 0);
    (* maintenance (frozen) *)
    ("med", F0, o6 0 7 6 6 0 0); ("med74c", F0, o6 0 7 6 6 0 1);
    ("xfc", FNum 6 false, o6 0 7 6 7 0 0);
    ("sob", FSob, o6 0 7 7 0 0 0);
    ("bpl", FBranch, o6 1 0 0 0 0 0); ("bmi", FBranch, o6 1 0 0 4 0 0); ("bhi", FBranch, o6 1 0 1 0 0 0);
    ("blos", FBranch, o6 1 0 1 4 0 0); ("bvc", FBranch, o6 1 0 2 0 0 0); ("bvs", FBranch, o6 1 0 2 4 0 0);
    ("bhis", FBranch, o6 1 0 3 0 0 0); ("blo", FBranch, o6 1 0 3 4 0 0);
    (* neg_ok = true follows pdpy11's pattern letters: emt/trap carry the "signed" field letter i (-2^8 < v < 2^8,
       stored mod 2^8), spl/mark/xfc the unsigned letter I; the convention is the code's, disclosed in ASSUME *)
    ("emt", FNum 8 true, o6 1 0 4 0 0 0); ("trap", FNum 8 true, o6 1 0 4 4 0 0);
    ("clrb", FDst, o6 1 0 5 0 0 0); ("comb", FDst, o6 1 0 5 1 0 0); ("incb", FDst, o6 1 0 5 2 0 0);
    ("decb", FDst, o6 1 0 5 3 0 0); ("negb", FDst, o6 1 0 5 4 0 0); ("adcb", FDst, o6 1 0 5 5 0 0);
    ("sbcb", FDst, o6 1 0 5 6 0 0); ("tstb", FDst, o6 1 0 5 7 0 0);
    ("rorb", FDst, o6 1 0 6 0 0 0); ("rolb", FDst, o6 1 0 6 1 0 0); ("asrb", FDst, o6 1 0 6 2 0 0);
    ("aslb", FDst, o6 1 0 6 3 0 0); ("mtps", FDst, o6 1 0 6 4 0 0); ("mfpd", FDst, o6 1 0 6 5 0 0);
    ("mtpd", FDst, o6 1 0 6 6 0 0); ("mfps", FDst, o6 1 0 6 7 0 0);
    ("movb", FDouble, o6 1 1 0 0 0 0); ("cmpb", FDouble, o6 1 2 0 0 0 0); ("bitb", FDouble, o6 1 3 0 0 0 0);
    ("bicb", FDouble, o6 1 4 0 0 0 0); ("bisb", FDouble, o6 1 5 0 0 0 0); ("sub", FDouble, o6 1 6 0 0 0 0);
    (* FP11 *)
    ("cfcc", F0, o6 1 7 0 0 0 0); ("setf", F0, o6 1 7 0 0 0 1); ("seti", F0, o6 1 7 0 0 0 2);
    ("ldub", F0, o6 1 7 0 0 0 3); ("ldsc", F0, o6 1 7 0 0 0 4); ("sta0", F0, o6 1 7 0 0 0 5);
    ("stb0", F0, o6 1 7 0 0 0 6); ("stq0", F0, o6 1 7 0 0 0 7);
    ("setd", F0, o6 1 7 0 0 1 1); ("setl", F0, o6 1 7 0 0 1 2);
    ("ldfps", FDst, o6 1 7 0 1 0 0); ("stfps", FDst, o6 1 7 0 2 0 0); ("stst", FDst, o6 1 7 0 3 0 0);
    ("clrf", FFp, o6 1 7 0 4 0 0); ("tstf", FFp, o6 1 7 0 5 0 0); ("absf", FFp, o6 1 7 0 6 0 0); ("negf", FFp, o6 1 7 0 7 0 0);
    ("mulf", FFpSrcAc, o6 1 7 1 0 0 0); ("modf", FFpSrcAc, o6 1 7 1 4 0 0);
    ("addf", FFpSrcAc, o6 1 7 2 0 0 0); ("ldf", FFpSrcAc, o6 1 7 2 4 0 0);
    ("subf", FFpSrcAc, o6 1 7 3 0 0 0); ("cmpf", FFpSrcAc, o6 1 7 3 4 0 0);
    ("stf", FFpAcDst, o6 1 7 4 0 0 0); ("divf", FFpSrcAc, o6 1 7 4 4 0 0);
    ("stexp", FAcDst, o6 1 7 5 0 0 0); ("stcfi", FAcDst, o6 1 7 5 4 0 0);
    ("stcfd", FFpAcDst, o6 1 7 6 0 0 0); ("ldexp", FSrcAc, o6 1 7 6 4 0 0);
    ("ldcif", FSrcAc, o6 1 7 7 0 0 0); ("ldcfd", FFpSrcAc, o6 1 7 7 4 0 0) ].

(* normalised once, so that the decoder scans literal rows *)
Definition optable : list row := Eval vm_compute in (base_rows ++ cc_rows ++ cis_rows)%list.

Definition row_matches (w : Z) (r : row) : bool :=
  let '(_, f, base) := r in (base <=? w) && (w <? base + fsize f).

Definition decode_head (w : Z) : option (string * list field) :=
  match find (row_matches w) optable with
  | Some (name, f, _) => Some (name, fields_of f w)
  | None => None
  end.

(* ------------------------------------------------------------------------------------------ *)
(* effective addresses.  [addr] is the address of the instruction's first word, [k] the number of
   extension words of this instruction that precede the one being read, so the word is at
   addr + 2 + 2k and the PC points behind it when the displacement is added. *)
Definition ea_pcrel (addr k x : Z) : Z := wrap16 (addr + 2 + 2 * k + 2 + x).
Definition sext8 (f : Z) : Z := if f <? 128 then f else f - 256.
Definition branch_target (addr f : Z) : Z := wrap16 (addr + 2 + 2 * sext8 f).
Definition sob_target (addr f : Z) : Z := wrap16 (addr + 2 - 2 * f).

Definition take_word (ws : list Z) (f : Z -> soperand) : option (soperand * nat) :=
  match ws with
  | w :: _ => if is_word w then Some (f w, 1%nat) else None
  | [] => None
  end.

Definition decode_rm (fp : bool) (v : Z) (ws : list Z) (addr k : Z) : option (soperand * nat) :=
  let mode := v / 8 in
  let r := v mod 8 in
  if mode =? 0 then
    (if fp then (if r <=? 5 then Some (SAcc r, 0%nat) else None) else Some (SReg r, 0%nat))
  else if mode =? 1 then Some (SDef r, 0%nat)
  else if mode =? 2 then (if r =? 7 then take_word ws SImm else Some (SInc r, 0%nat))
  else if mode =? 3 then (if r =? 7 then take_word ws SAbs else Some (SIncDef r, 0%nat))
  else if mode =? 4 then Some (SDec r, 0%nat)
  else if mode =? 5 then Some (SDecDef r, 0%nat)
  else if mode =? 6 then
    (if r =? 7 then take_word ws (fun x => SRel (ea_pcrel addr k x)) else take_word ws (fun x => SIdx x r))
  else if mode =? 7 then
    (if r =? 7 then take_word ws (fun x => SRelDef (ea_pcrel addr k x)) else take_word ws (fun x => SIdxDef x r))
  else None.

Definition decode_field (f : field) (ws : list Z) (addr k : Z) : option (soperand * nat) :=
  match f with
  | KReg v => Some (SReg v, 0%nat)
  | KRM v => decode_rm false v ws addr k
  | KFpRM v => decode_rm true v ws addr k
  | KAcc v => Some (SAcc v, 0%nat)
  (* no format has an extension word before a branch field, so k = 0 whenever decode gets here;
     written with k so that the PC is "behind everything fetched so far" in general *)
  | KBr v => Some (STarget (branch_target (addr + 2 * k) v), 0%nat)
  | KSob v => Some (STarget (sob_target (addr + 2 * k) v), 0%nat)
  | KNum v => Some (SNum v, 0%nat)
  end.

Fixpoint decode_fields (fs : list field) (ws : list Z) (addr k : Z) : option (list soperand * nat) :=
  match fs with
  | [] => Some ([], 0%nat)
  | f :: fs' =>
      match decode_field f ws addr k with
      | None => None
      | Some (o, n) =>
          match decode_fields fs' (skipn n ws) addr (k + Z.of_nat n) with
          | None => None
          | Some (os, n') => Some (o :: os, (n + n')%nat)
          end
      end
  end.

(* decode the instruction at the head of [ws], located at address [addr]:
   operation, operands, number of words consumed *)
Definition decode (ws : list Z) (addr : Z) : option (string * list soperand * nat) :=
  match ws with
  | [] => None
  | w :: rest =>
      if is_word w then
        match decode_head w with
        | None => None
        | Some (name, fs) =>
            match decode_fields fs rest addr 0 with
            | None => None
            | Some (ops, n) => Some (name, ops, S n)
            end
        end
      else None
  end.

(* ------------------------------------------------------------------------------------------ *)
(* source-level operand forms (what one writes) *)
Inductive operand : Type :=
| OReg (r : Z)                    (* rN sp pc %n : register number; %n may carry any integer *)
| ORegDef (r : Z)                 (* (rN)  @rN *)
| OAutoInc (r : Z)                (* (rN)+ *)
| OAutoIncDef (r : Z)             (* @(rN)+ *)
| OAutoDec (r : Z)                (* -(rN) *)
| OAutoDecDef (r : Z)             (* @-(rN) *)
| OIndex (x r : Z)                (* X(rN) *)
| OIndexDef (x r : Z)             (* @X(rN)   @(rN) is @0(rN) *)
| OImm (v : Z)                    (* #v *)
| OAbs (a : Z)                    (* @#a *)
| ORel (t : Z)                    (* bare expression with value t: relative operand, branch target, inline number *)
| ORelDef (t : Z)                 (* @t *)
| OAcc (n : Z).                   (* the token acN where a floating operand / accumulator is expected, or where no user
                                     symbol of that name is defined.  A *defined* symbol that happens to be named acN and
                                     is written where a general operand, branch target or inline number is expected is an
                                     ordinary expression (ORel value): the mapping is [token_acc] below *)

(* operand classes of the formats *)
Inductive okind : Type :=
| CReg | CRM | CFpRM | CAcc | CBr | CSob | CNum (bits : Z) (neg_ok : bool).

(* emt/trap take a "signed" inline number in pdpy11's documented convention: any v with
   -2^8 < v < 2^8, stored modulo 2^8; spl/mark/xfc are unsigned *)
Definition kinds_of (f : format) : list okind :=
  match f with
  | F0 => []
  | FReg => [CReg]
  | FNum b s => [CNum b s]
  | FDst => [CRM]
  | FDouble => [CRM; CRM]
  | FRegDst => [CReg; CRM]
  | FSrcReg => [CRM; CReg]
  | FBranch => [CBr]
  | FSob => [CReg; CSob]
  | FFp => [CFpRM]
  | FFpSrcAc => [CFpRM; CAcc]
  | FFpAcDst => [CAcc; CFpRM]
  | FAcDst => [CAcc; CRM]
  | FSrcAc => [CRM; CAcc]
  end.

(* what the token acN denotes in an operand position of class c, given the value [sym] of a user
   symbol of that name if one is defined: an accumulator only where a floating operand or an
   accumulator is expected (there it shadows the symbol); everywhere else the ordinary symbol --
   a bare expression when defined, an undefined name (refused) when not *)
Definition token_acc (c : okind) (n : Z) (sym : option Z) : operand :=
  match c with
  | CFpRM | CAcc => OAcc n
  | _ => match sym with Some t => ORel t | None => OAcc n end
  end.

Definition sem_reg (r : Z) : option Z := if (0 <=? r) && (r <? 8) then Some r else None.
(* a 16-bit operand value may be written signed or unsigned; it denotes its residue *)
Definition val16 (x : Z) : option Z := if (-65536 <? x) && (x <? 65536) then Some (x mod 65536) else None.

Definition ext_words (s : soperand) : Z :=
  match s with
  | SIdx _ _ | SIdxDef _ _ | SImm _ | SAbs _ | SRel _ | SRelDef _ => 1
  | _ => 0
  end.

Definition omap {A B} (f : A -> B) (o : option A) : option B :=
  match o with Some a => Some (f a) | None => None end.
Definition obind {A B} (o : option A) (f : A -> option B) : option B :=
  match o with Some a => f a | None => None end.

(* general (integer) operand.  An explicitly written (pc)+ / @(pc)+ is the immediate / absolute
   mode whose data word the programmer supplies as a separate statement: such a line is not a
   complete instruction and has no denotation here (see [explicit_pc_autoinc]). *)
Definition sem_rm (o : operand) (addr k : Z) : option soperand :=
  match o with
  | OReg r => omap SReg (sem_reg r)
  | ORegDef r => omap SDef (sem_reg r)
  | OAutoInc r => obind (sem_reg r) (fun r => if r =? 7 then None else Some (SInc r))
  | OAutoIncDef r => obind (sem_reg r) (fun r => if r =? 7 then None else Some (SIncDef r))
  | OAutoDec r => omap SDec (sem_reg r)
  | OAutoDecDef r => omap SDecDef (sem_reg r)
  | OIndex x r => obind (sem_reg r) (fun r => obind (val16 x) (fun x =>
                    Some (if r =? 7 then SRel (ea_pcrel addr k x) else SIdx x r)))
  | OIndexDef x r => obind (sem_reg r) (fun r => obind (val16 x) (fun x =>
                    Some (if r =? 7 then SRelDef (ea_pcrel addr k x) else SIdxDef x r)))
  | OImm v => omap SImm (val16 v)
  | OAbs a => omap SAbs (val16 a)
  | ORel t => Some (SRel (wrap16 t))
  | ORelDef t => Some (SRelDef (wrap16 t))
  | OAcc _ => None
  end.

Definition sem_operand (c : okind) (o : operand) (addr k : Z) : option soperand :=
  match c with
  | CReg => match o with OReg r => omap SReg (sem_reg r) | _ => None end
  | CRM => sem_rm o addr k
  | CFpRM =>
      match o with
      | OAcc n => if (0 <=? n) && (n <=? 5) then Some (SAcc n) else None
      | OReg r => obind (sem_reg r) (fun r => if r <=? 5 then Some (SAcc r) else None)
      | _ => sem_rm o addr k
      end
  | CAcc => match o with OAcc n => if (0 <=? n) && (n <=? 3) then Some (SAcc n) else None | _ => None end
  | CBr =>
      match o with
      | ORel t => let d := t - (addr + 2 * k + 2) in
                  if Z.even d && (-256 <=? d) && (d <=? 254) then Some (STarget (wrap16 t)) else None
      | _ => None
      end
  | CSob =>
      match o with
      | ORel t => let d := t - (addr + 2 * k + 2) in
                  if Z.even d && (-126 <=? d) && (d <=? 0) then Some (STarget (wrap16 t)) else None
      | _ => None
      end
  | CNum b neg_ok =>
      let num v := if ((if neg_ok then - 2 ^ b <? v else 0 <=? v)) && (v <? 2 ^ b) then Some (SNum (v mod 2 ^ b)) else None in
      match o with
      | ORel v => num v
      | OImm v => num v      (* "emt #3": accepted, the hash is redundant *)
      | _ => None
      end
  end.

Fixpoint sem_operands (cs : list okind) (os : list operand) (addr k : Z) : option (list soperand) :=
  match cs, os with
  | [], [] => Some []
  | c :: cs', o :: os' =>
      match sem_operand c o addr k with
      | None => None
      | Some s =>
          match sem_operands cs' os' addr (k + ext_words s) with
          | None => None
          | Some ss => Some (s :: ss)
          end
      end
  | _, _ => None
  end.

(* ------------------------------------------------------------------------------------------ *)
(* the 252 mnemonics: canonical operation and fixed operands a pseudo-instruction supplies *)
Inductive cst : Type := CstPc | CstPopSp | CstPushSp.
Definition cst_sop (c : cst) : soperand :=
  match c with CstPc => SReg 7 | CstPopSp => SInc 6 | CstPushSp => SDec 6 end.

Definition synonym_table : list (string * (string * list cst * list cst)) :=
  [ ("bcc", ("bhis", [], [])); ("bcs", ("blo", [], []));
    ("ccc", ("clnzvc", [], [])); ("scc", ("senzvc", [], []));
    ("sys", ("trap", [], [])); ("hlt", ("halt", [], []));
    ("callr", ("jmp", [], []));
    ("call", ("jsr", [CstPc], []));
    ("ret", ("rts", [CstPc], [])); ("return", ("rts", [CstPc], []));
    ("push", ("mov", [], [CstPushSp]));
    ("pop", ("mov", [CstPopSp], []));
    ("med6x", ("med", [], []));
    ("mns", ("ldsc", [], [])); ("msn", ("ldsc", [], []));
    ("mpp", ("sta0", [], [])); ("mrs", ("stb0", [], []));
    ("clrd", ("clrf", [], [])); ("tstd", ("tstf", [], [])); ("absd", ("absf", [], [])); ("negd", ("negf", [], []));
    ("muld", ("mulf", [], [])); ("modd", ("modf", [], [])); ("addd", ("addf", [], [])); ("ldd", ("ldf", [], []));
    ("subd", ("subf", [], [])); ("cmpd", ("cmpf", [], [])); ("std", ("stf", [], [])); ("divd", ("divf", [], []));
    ("stcfl", ("stcfi", [], [])); ("stcdi", ("stcfi", [], [])); ("stcdl", ("stcfi", [], []));
    ("stcdf", ("stcfd", [], []));
    ("ldcid", ("ldcif", [], [])); ("ldclf", ("ldcif", [], [])); ("ldcld", ("ldcif", [], []));
    ("ldcdf", ("ldcfd", [], [])) ].

Fixpoint assoc_str {A} (k : string) (l : list (string * A)) : option A :=
  match l with
  | [] => None
  | (k', v) :: l' => if String.eqb k k' then Some v else assoc_str k l'
  end.

Definition format_of (name : string) : option format :=
  match find (fun r : row => String.eqb (fst (fst r)) name) optable with
  | Some (_, f, _) => Some f
  | None => None
  end.

Definition canon (m : string) : option (string * list cst * list cst) :=
  match assoc_str m synonym_table with
  | Some c => Some c
  | None => match format_of m with Some _ => Some (m, [], []) | None => None end
  end.

(* the operand classes the user writes: those of the operation minus the supplied ones *)
Definition user_kinds (name : string) (pre post : list cst) : option (list okind) :=
  match format_of name with
  | None => None
  | Some f =>
      let ks := kinds_of f in
      let n := (List.length ks - List.length pre - List.length post)%nat in
      if Nat.leb (List.length pre + List.length post) (List.length ks)
      then Some (firstn n (skipn (List.length pre) ks)) else None
  end.

(* what the line "m ops" at address [addr] denotes *)
Definition expect (m : string) (ops : list operand) (addr : Z) : option (string * list soperand) :=
  match canon m with
  | None => None
  | Some (name, pre, post) =>
      match user_kinds name pre post with
      | None => None
      | Some ks =>
          match sem_operands ks ops addr 0 with
          | None => None
          | Some ss => Some (name, (map cst_sop pre ++ ss ++ map cst_sop post)%list)
          end
      end
  end.

Definition explicit_pc_autoinc (o : operand) : bool :=
  match o with
  | OAutoInc r | OAutoIncDef r => r =? 7
  | _ => false
  end.
