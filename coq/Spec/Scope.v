(* C11 -- declarative symbol scoping (frozen text; independent of the prefix-counter mechanism).

   Abstract programs: linked files and an include table; every reference is a use site '.word name',
   every assignment carries a constant, every label's value is the address it is met at.

   1. [expand] unfolds a program into a well-nested trace of events: file instances (one per linked file
      and per executed '.include'), one block per executed iteration of a '.repeat' body, '.end' cutting the
      rest of its block; label events carry their address (1000 octal + 2 bytes per use site before them).
      This step knows nothing about names.
   2. Identities are positions in the trace: a file instance is the position of its EFile event, a block the
      position of its EFile/EBlock event, a local scope ("segment") the position of the block start or of the
      last ordinary label of the same file-level block.
   3. [spec_run]: a numeric name binds to the local label of that name in the same block and segment; an
      ordinary name binds to the definition in its own file instance if any, else to the definition in the
      instance that exported the name (first export stands), else is undefined; a definition inside a
      '.repeat' body, a second definition of a name in the same scope, a second export of a name are errors.
   Documented restriction: '.extern all' counts for the definitions that follow it only when it stands at file level
   of the instance ([a_infile] in [xall_before]); inside a '.repeat' body it exports the definitions met so far and
   nothing after the body (a.mac '.word q'; b.mac 'q = 7 / .repeat 1 { .extern all } / s = 5'; c.mac '.word s':
   q is exported, s is not -> undefined-symbol).  Local labels of the enclosing scope are invisible inside a body. *)
From Coq Require Import String Ascii List ZArith NArith Bool.
From Verif Require Import Base.Res.
Import ListNotations.
Open Scope Z_scope.

(* ------------------------------------------------------------------ syntax *)
Inductive item :=
| Label (name : string) (ext : bool)            (* name:  /  name::        (ordinary label) *)
| LocalLabel (name : string)                    (* 1:  2$:                 (numeric local label) *)
| Assign (name : string) (ext : bool) (v : Z)   (* name = v  /  name == v *)
| Ref (name : string)                           (* .word name             (a use site) *)
| Block (n : nat) (body : list item)            (* .repeat n { body } *)
| Include (f : nat)                             (* .include of file f of the include table *)
| ExternDecl (names : list string)              (* .extern a, b *)
| ExternAll                                     (* .extern all *)
| End.                                          (* .end *)

Definition file := list item.
Record program := { linked : list file; inctable : list file }.

(* ------------------------------------------------------------------ case folding (ASCII, as str.lower on
   the characters the parser admits in names) *)
Definition lower_ascii (c : ascii) : ascii :=
  let n := nat_of_ascii c in
  if (Nat.leb 65 n && Nat.leb n 90)%bool then ascii_of_nat (n + 32) else c.

Fixpoint lower (s : string) : string :=
  match s with
  | EmptyString => EmptyString
  | String c r => String (lower_ascii c) (lower r)
  end.

Definition is_digit (c : ascii) : bool :=
  let n := nat_of_ascii c in (Nat.leb 48 n && Nat.leb n 57)%bool.

Definition is_local (name : string) : bool :=
  match name with String c _ => is_digit c | EmptyString => false end.

(* ------------------------------------------------------------------ the trace *)
Inductive ev :=
| EFile | EEndFile
| EBlock | EEndBlock
| ELabel (name : string) (ext : bool) (addr : Z)
| ELocal (name : string) (addr : Z)
| EAssign (name : string) (ext : bool) (v : Z)
| ERef (name : string)
| EExtern (names : list string)
| EExternAll.

Definition addr_of (cnt : Z) : Z := 512 + 2 * cnt.

Fixpoint iter_block (g : Z -> res (list ev * Z)) (k : nat) (cnt : Z) : res (list ev * Z) :=
  match k with
  | O => Ok ([], cnt)
  | S k' =>
      do r1 <- g cnt;
      do r2 <- iter_block g k' (snd r1);
      Ok (EBlock :: fst r1 ++ EEndBlock :: fst r2, snd r2)
  end.

(* cnt = number of use sites emitted so far *)
Fixpoint xl (fuel : nat) (tbl : list file) (its : list item) (cnt : Z) : res (list ev * Z) :=
  match fuel with
  | O => OutOfFuel
  | S f =>
    match its with
    | [] => Ok ([], cnt)
    | End :: _ => Ok ([], cnt)
    | it :: rest =>
        do r1 <- match it with
                 | Label n e => Ok ([ELabel n e (addr_of cnt)], cnt)
                 | LocalLabel n => Ok ([ELocal n (addr_of cnt)], cnt)
                 | Assign n e v => Ok ([EAssign n e v], cnt)
                 | Ref n => Ok ([ERef n], cnt + 1)
                 | Block k body => iter_block (xl f tbl body) k cnt
                 | Include i =>
                     match nth_error tbl i with
                     | None => Err ["io-error"%string]
                     | Some fl => do r <- xl f tbl fl cnt; Ok (EFile :: fst r ++ [EEndFile], snd r)
                     end
                 | ExternDecl ns => Ok ([EExtern ns], cnt)
                 | ExternAll => Ok ([EExternAll], cnt)
                 | End => Ok ([], cnt)
                 end;
        do r2 <- xl f tbl rest (snd r1);
        Ok (fst r1 ++ fst r2, snd r2)
    end
  end.

Fixpoint xfiles (fuel : nat) (tbl : list file) (fs : list file) (cnt : Z) : res (list ev) :=
  match fs with
  | [] => Ok []
  | fl :: rest =>
      do r <- xl fuel tbl fl cnt;
      do t <- xfiles fuel tbl rest (snd r);
      Ok (EFile :: fst r ++ EEndFile :: t)
  end.

Definition expand (fuel : nat) (p : program) : res (list ev) := xfiles fuel (inctable p) (linked p) 0.

(* ------------------------------------------------------------------ positions as identities *)
Record ann := { a_inst : nat; a_blk : nat; a_infile : bool; a_seg : nat }.

Definition ann0 : ann := {| a_inst := 0; a_blk := 0; a_infile := false; a_seg := 0 |}.

Definition top (st : list ann) : ann := match st with a :: _ => a | [] => ann0 end.

(* every event with its position and the scope it is met in *)
Fixpoint annot (tr : list ev) (pos : nat) (st : list ann) : list (nat * ev * ann) :=
  match tr with
  | [] => []
  | e :: rest =>
      let here := top st in
      let st' :=
        match e with
        | EFile => {| a_inst := pos; a_blk := pos; a_infile := true; a_seg := pos |} :: st
        | EBlock => {| a_inst := a_inst here; a_blk := pos; a_infile := false; a_seg := pos |} :: st
        | EEndFile | EEndBlock => tl st
        | ELabel _ _ _ =>
            if a_infile here
            then {| a_inst := a_inst here; a_blk := a_blk here; a_infile := true; a_seg := pos |} :: tl st
            else st
        | _ => st
        end in
      (pos, e, here) :: annot rest (S pos) st'
  end.

Definition E_UNEXPECTED : string := "unexpected-symbol-definition".
Definition E_DUP : string := "duplicate-symbol".
Definition E_UNDEFINED : string := "undefined-symbol".

(* definitions that count: not inside a '.repeat' body *)
Record odef := { o_name : string; o_inst : nat; o_val : Z; o_pos : nat; o_ext : bool }.
Record ldef := { l_name : string; l_blk : nat; l_seg : nat; l_val : Z; l_pos : nat }.

Fixpoint ord_defs (A : list (nat * ev * ann)) : list odef :=
  match A with
  | [] => []
  | (p, e, a) :: r =>
      match e with
      | ELabel n x v | EAssign n x v =>
          if a_infile a
          then {| o_name := lower n; o_inst := a_inst a; o_val := v; o_pos := p; o_ext := x |} :: ord_defs r
          else ord_defs r
      | _ => ord_defs r
      end
  end.

Fixpoint loc_defs (A : list (nat * ev * ann)) : list ldef :=
  match A with
  | [] => []
  | (p, e, a) :: r =>
      match e with
      | ELocal n v =>
          if a_infile a
          then {| l_name := lower n; l_blk := a_blk a; l_seg := a_seg a; l_val := v; l_pos := p |} :: loc_defs r
          else loc_defs r
      | _ => loc_defs r
      end
  end.

Definition same_ord (d1 d2 : odef) : bool :=
  String.eqb (o_name d1) (o_name d2) && Nat.eqb (o_inst d1) (o_inst d2).
Definition same_loc (d1 d2 : ldef) : bool :=
  String.eqb (l_name d1) (l_name d2) && Nat.eqb (l_blk d1) (l_blk d2) && Nat.eqb (l_seg d1) (l_seg d2).

(* the first definition of a name in a scope stands; later ones are rejected *)
Fixpoint accepted {A} (same : A -> A -> bool) (seen l : list A) : list A :=
  match l with
  | [] => []
  | d :: r => if existsb (same d) seen then accepted same (d :: seen) r else d :: accepted same (d :: seen) r
  end.

Definition has_unexpected (A : list (nat * ev * ann)) : bool :=
  existsb (fun pea => match pea with
                      | (_, (ELabel _ _ _ | ELocal _ _ | EAssign _ _ _), a) => negb (a_infile a)
                      | _ => false end) A.

(* export acts in the order they happen: (folded name, exporting instance) *)
Definition xall_before (A : list (nat * ev * ann)) (inst p : nat) : bool :=
  existsb (fun pea => match pea with
                      | (q, EExternAll, a) => Nat.ltb q p && Nat.eqb (a_inst a) inst && a_infile a
                      | _ => false end) A.

Definition acts_at (A : list (nat * ev * ann)) (acc : list odef) (pea : nat * ev * ann) : list (string * nat) :=
  let '(p, e, a) := pea in
  match e with
  | ELabel n x _ | EAssign n x _ =>
      if existsb (fun d => Nat.eqb (o_pos d) p) acc
      then (if x then [(lower n, a_inst a)] else []) ++
           (if xall_before A (a_inst a) p then [(lower n, a_inst a)] else [])
      else []
  | EExtern ns => map (fun n => (lower n, a_inst a)) ns
  | EExternAll =>
      map (fun d => (o_name d, o_inst d))
          (filter (fun d => Nat.eqb (o_inst d) (a_inst a) && Nat.ltb (o_pos d) p) acc)
  | _ => []
  end.

Definition export_acts (A : list (nat * ev * ann)) (acc : list odef) : list (string * nat) :=
  flat_map (acts_at A acc) A.

Fixpoint has_dup_name (seen : list string) (l : list (string * nat)) : bool :=
  match l with
  | [] => false
  | (n, _) :: r => existsb (String.eqb n) seen || has_dup_name (n :: seen) r
  end.

Fixpoint first_act (n : string) (l : list (string * nat)) : option nat :=
  match l with
  | [] => None
  | (m, i) :: r => if String.eqb n m then Some i else first_act n r
  end.

Definition find_ord (acc : list odef) (n : string) (inst : nat) : option Z :=
  match find (fun d => String.eqb (o_name d) n && Nat.eqb (o_inst d) inst) acc with
  | Some d => Some (o_val d)
  | None => None
  end.

Definition bind_ord (acc : list odef) (acts : list (string * nat)) (n : string) (inst : nat) : option Z :=
  match find_ord acc n inst with
  | Some v => Some v
  | None => match first_act n acts with
            | Some i => find_ord acc n i
            | None => None
            end
  end.

Definition bind_loc (lacc : list ldef) (n : string) (blk seg : nat) : option Z :=
  match find (fun d => String.eqb (l_name d) n && Nat.eqb (l_blk d) blk && Nat.eqb (l_seg d) seg) lacc with
  | Some d => Some (l_val d)
  | None => None
  end.

Definition bindings (A : list (nat * ev * ann)) (acc : list odef) (lacc : list ldef) (acts : list (string * nat))
  : list (option Z) :=
  flat_map (fun pea => match pea with
                       | (_, ERef n, a) =>
                           [if is_local n then bind_loc lacc (lower n) (a_blk a) (a_seg a)
                            else bind_ord acc acts (lower n) (a_inst a)]
                       | _ => [] end) A.

Inductive outcome := OutOk (words : list Z) | OutFail (errors : list string).

Definition spec_trace (tr : list ev) : outcome :=
  let A := annot tr 0 [] in
  let od := ord_defs A in
  let ld := loc_defs A in
  let acc := accepted same_ord [] od in
  let lacc := accepted same_loc [] ld in
  let acts := export_acts A acc in
  let bs := bindings A acc lacc acts in
  let errs :=
    (if has_unexpected A then [E_UNEXPECTED] else []) ++
    (if negb (Nat.eqb (length acc) (length od)) || negb (Nat.eqb (length lacc) (length ld)) || has_dup_name [] acts
     then [E_DUP] else []) ++
    (if existsb (fun b => match b with None => true | Some _ => false end) bs then [E_UNDEFINED] else []) in
  match errs with
  | [] => OutOk (map (fun b => match b with Some v => v | None => 0 end) bs)
  | _ => OutFail errs
  end.

Definition spec_run (fuel : nat) (p : program) : res outcome :=
  do tr <- expand fuel p; Ok (spec_trace tr).

(* the domain the generator stays in: names are well-kinded *)
Fixpoint wf_items (fuel : nat) (its : list item) : bool :=
  match fuel with
  | O => false
  | S f =>
      forallb (fun it => match it with
                         | Label n _ | Assign n _ _ => negb (is_local n)
                         | LocalLabel n => is_local n
                         | Block _ body => wf_items f body
                         | _ => true end) its
  end.
