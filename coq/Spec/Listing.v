(* Spec/Listing.v -- what "the listing agrees with the image" means (C19).  Frozen text.

   Strings are Coq [string]s holding the UTF-8 bytes of the Python [str]; byte-lexicographic
   order on UTF-8 is code-point order, which is Python's order on [str].

   The listing of a list of ordinary symbols [syms] (given in definition order, each with the
   name of the file whose instance defined it) is the text made of one block per file name, the
   file names in order of first appearance; a block is the file name on a line, one line per
   symbol of that file -- every symbol exactly once -- ordered by (value, name), and an empty
   line.  A symbol line is the value as an octal field, a space and the name.  The octal field
   of v is an optional sign and at least six octal digits whose base-8 reading is |v|, with no
   more than six digits unless they are needed.

   [check_listing] is the executable form used to judge observed listings; its soundness with
   respect to [is_listing] is proved in Proofs/ListingP.v. *)
From Coq Require Import String Ascii List ZArith NArith Bool Sorted Permutation.
Import ListNotations.
Open Scope string_scope.

Record sym := mkSym { s_file : string; s_name : string; s_value : Z }.

(* ---- the order on names: lexicographic on character codes, a proper prefix comes first *)
Inductive str_le : string -> string -> Prop :=
| str_le_nil : forall t, str_le "" t
| str_le_lt : forall a b s t, (N_of_ascii a < N_of_ascii b)%N -> str_le (String a s) (String b t)
| str_le_eq : forall a s t, str_le s t -> str_le (String a s) (String a t).

Definition line := (Z * string)%type.          (* value, name *)

Definition line_le (a b : line) : Prop :=
  (fst a < fst b)%Z \/ (fst a = fst b /\ str_le (snd a) (snd b)).

(* ---- the octal field and its inverse *)
Definition octal_digit_value (c : ascii) : option Z :=
  let n := N_of_ascii c in
  if (48 <=? n)%N && (n <=? 55)%N then Some (Z.of_N (n - 48)) else None.

Fixpoint parse_octal_digits (acc : Z) (s : string) : option Z :=
  match s with
  | "" => Some acc
  | String c r => match octal_digit_value c with
                  | Some d => parse_octal_digits (8 * acc + d)%Z r
                  | None => None
                  end
  end.

(* reading a printed field back: optional '-', then one or more octal digits *)
Definition parse_octal_field (s : string) : option Z :=
  match s with
  | "" => None
  | String c r =>
      if Ascii.eqb c "-"
      then match r with "" => None | _ => option_map Z.opp (parse_octal_digits 0 r) end
      else parse_octal_digits 0 s
  end.

Definition field_for (v : Z) (s : string) : Prop :=
  exists ds, s = (if (v <? 0)%Z then "-" else "") ++ ds
             /\ parse_octal_digits 0 ds = Some (Z.abs v)
             /\ (6 <= String.length ds)%nat
             /\ ((6 < String.length ds)%nat -> forall c r, ds = String c r -> c <> "0"%char).

(* ---- structure *)
Definition block := (string * list line)%type.   (* file name, its lines *)

Fixpoint first_occurrences (l : list string) : list string :=
  match l with
  | [] => []
  | x :: r => x :: filter (fun y => negb (String.eqb x y)) (first_occurrences r)
  end.

Definition syms_of_file (f : string) (syms : list sym) : list sym :=
  filter (fun s => String.eqb (s_file s) f) syms.

Definition block_syms (b : block) : list sym :=
  map (fun l => mkSym (fst b) (snd l) (fst l)) (snd b).

Definition block_ok (syms : list sym) (b : block) : Prop :=
  Permutation (block_syms b) (syms_of_file (fst b) syms) /\ Sorted line_le (snd b).

Definition listing_of (syms : list sym) (bs : list block) : Prop :=
  map fst bs = first_occurrences (map s_file syms) /\ Forall (block_ok syms) bs.

(* ---- text *)
Definition nl : string := String (ascii_of_N 10) "".

Inductive renders_lines : list line -> string -> Prop :=
| rl_nil : renders_lines [] ""
| rl_cons : forall v n fld ls t,
    field_for v fld -> renders_lines ls t ->
    renders_lines ((v, n) :: ls) (fld ++ " " ++ n ++ nl ++ t).

Inductive renders : list block -> string -> Prop :=
| r_nil : renders [] ""
| r_cons : forall f ls tl bs t,
    renders_lines ls tl -> renders bs t ->
    renders ((f, ls) :: bs) (f ++ nl ++ tl ++ nl ++ t).

Definition is_listing (syms : list sym) (text : string) : Prop :=
  exists bs, listing_of syms bs /\ renders bs text.

(* ---- every listed label address is where the byte following the label lies in the image.
   [placed] gives, for a label symbol, the offset in the image of the first byte emitted after
   the label.  The listing points there iff its line for that symbol carries base + offset. *)
Definition points_into_image (base : Z) (bs : list block) (placed : list (sym * nat)) : Prop :=
  forall s off, In (s, off) placed ->
    exists b, In b bs /\ fst b = s_file s /\ In (s_value s, s_name s) (snd b)
              /\ Z.to_nat (s_value s - base) = off /\ (base <= s_value s)%Z.

(* ---- where the listing file goes: beside the output file, named after it with ".lst"
   (the output file's own extension, if it has the given one, is replaced) *)
Fixpoint no_char (c : ascii) (s : string) : Prop :=
  match s with "" => True | String a r => a <> c /\ no_char c r end.

Definition lst_beside (out ext lst : string) : Prop :=
  (lst = out ++ ".lst" /\ forall stem, out <> stem ++ "." ++ ext)
  \/ (exists stem, out = stem ++ "." ++ ext /\ lst = stem ++ ".lst").

(* ======================================================================================== *)
(* executable judge *)

Fixpoint str_leb (s t : string) : bool :=
  match s, t with
  | "", _ => true
  | String _ _, "" => false
  | String a s', String b t' =>
      if (N_of_ascii a <? N_of_ascii b)%N then true
      else if (N_of_ascii a =? N_of_ascii b)%N then str_leb s' t' else false
  end.

Definition line_leb (a b : line) : bool :=
  (fst a <? fst b)%Z || ((fst a =? fst b)%Z && str_leb (snd a) (snd b)).

Fixpoint sortedb (ls : list line) : bool :=
  match ls with
  | [] => true
  | a :: r => match r with [] => true | b :: _ => line_leb a b && sortedb r end
  end.

(* canonical field: returns the value *)
Definition strip_sign (s : string) : bool * string :=
  match s with
  | String c r => if Ascii.eqb c "-" then (true, r) else (false, s)
  | "" => (false, s)
  end.

Definition field_value (s : string) : option Z :=
  let '(neg, ds) := strip_sign s in
  match parse_octal_digits 0 ds with
  | None => None
  | Some a =>
      if (6 <=? String.length ds)%nat
         && ((String.length ds <=? 6)%nat || match ds with String c _ => negb (Ascii.eqb c "0") | "" => true end)
         && (if neg then (0 <? a)%Z else true)
      then Some (if neg then (- a)%Z else a) else None
  end.

(* split off the first line: (line, rest after the newline); None if there is no newline *)
Fixpoint cut_line (s : string) : option (string * string) :=
  match s with
  | "" => None
  | String c r => if (N_of_ascii c =? 10)%N then Some ("", r)
                  else match cut_line r with
                       | Some (h, t) => Some (String c h, t)
                       | None => None
                       end
  end.

(* split "field name" at the first space *)
Fixpoint cut_space (s : string) : option (string * string) :=
  match s with
  | "" => None
  | String c r => if (N_of_ascii c =? 32)%N then Some ("", r)
                  else match cut_space r with
                       | Some (h, t) => Some (String c h, t)
                       | None => None
                       end
  end.

(* lines of one block up to the empty line; fuel = length of the text *)
Fixpoint parse_lines (fuel : nat) (s : string) : option (list (string * string) * string) :=
  match fuel with
  | O => None
  | S k => match cut_line s with
           | None => None
           | Some ("", rest) => Some ([], rest)
           | Some (l, rest) =>
               match cut_space l, parse_lines k rest with
               | Some (fld, name), Some (ls, rest') => Some ((fld, name) :: ls, rest')
               | _, _ => None
               end
           end
  end.

Fixpoint parse_blocks (fuel : nat) (s : string) : option (list (string * list (string * string))) :=
  match fuel with
  | O => None
  | S k => match s with
           | "" => Some []
           | _ => match cut_line s with
                  | None => None
                  | Some (f, rest) =>
                      match parse_lines (S (String.length rest)) rest with
                      | None => None
                      | Some (ls, rest') =>
                          match parse_blocks k rest' with
                          | Some bs => Some ((f, ls) :: bs)
                          | None => None
                          end
                      end
                  end
           end
  end.

Fixpoint unparse_lines (ls : list (string * string)) : string :=
  match ls with
  | [] => ""
  | (fld, n) :: r => fld ++ " " ++ n ++ nl ++ unparse_lines r
  end.

Fixpoint unparse (bs : list (string * list (string * string))) : string :=
  match bs with
  | [] => ""
  | (f, ls) :: r => f ++ nl ++ unparse_lines ls ++ nl ++ unparse r
  end.

Fixpoint values_of (ls : list (string * string)) : option (list line) :=
  match ls with
  | [] => Some []
  | (fld, n) :: r => match field_value fld, values_of r with
                     | Some v, Some vs => Some ((v, n) :: vs)
                     | _, _ => None
                     end
  end.

Fixpoint blocks_of (bs : list (string * list (string * string))) : option (list block) :=
  match bs with
  | [] => Some []
  | (f, ls) :: r => match values_of ls, blocks_of r with
                    | Some vs, Some bs' => Some ((f, vs) :: bs')
                    | _, _ => None
                    end
  end.

Definition sym_eqb (a b : sym) : bool :=
  String.eqb (s_file a) (s_file b) && String.eqb (s_name a) (s_name b) && (s_value a =? s_value b)%Z.

Fixpoint count_sym (x : sym) (l : list sym) : nat :=
  match l with [] => O | y :: r => (if sym_eqb x y then 1 else 0) + count_sym x r end.

(* same multiset *)
Definition perm_b (l1 l2 : list sym) : bool :=
  Nat.eqb (List.length l1) (List.length l2)
  && forallb (fun x => Nat.eqb (count_sym x l1) (count_sym x l2)) l1.

Fixpoint str_list_eqb (a b : list string) : bool :=
  match a, b with
  | [], [] => true
  | x :: xs, y :: ys => String.eqb x y && str_list_eqb xs ys
  | _, _ => false
  end.

Definition block_okb (syms : list sym) (b : block) : bool :=
  perm_b (block_syms b) (syms_of_file (fst b) syms) && sortedb (snd b).

Definition listing_ofb (syms : list sym) (bs : list block) : bool :=
  str_list_eqb (map fst bs) (first_occurrences (map s_file syms)) && forallb (block_okb syms) bs.

(* parse an observed text into blocks (None: not of the listing shape) *)
Definition parse_listing (text : string) : option (list block) :=
  match parse_blocks (S (String.length text)) text with
  | None => None
  | Some raw => if String.eqb (unparse raw) text then blocks_of raw else None
  end.

Definition check_listing (syms : list sym) (text : string) : bool :=
  match parse_listing text with
  | Some bs => listing_ofb syms bs
  | None => false
  end.

(* the image part, executable: [markers] = for a label symbol (file, name) the byte sequence
   the generator planted right after every instance of it; the positions at which the marker
   occurs in the image must be exactly value - base for the lines of that name in that file's
   block, in ascending order *)
Fixpoint starts_with (m img : list N) : bool :=
  match m, img with
  | [], _ => true
  | x :: m', y :: img' => (x =? y)%N && starts_with m' img'
  | _ :: _, [] => false
  end.

Fixpoint occurrences (m : list N) (img : list N) (pos : Z) : list Z :=
  match img with
  | [] => []
  | _ :: r => (if starts_with m img then [pos] else []) ++ occurrences m r (pos + 1)%Z
  end.

Fixpoint zlist_eqb (a b : list Z) : bool :=
  match a, b with
  | [], [] => true
  | x :: xs, y :: ys => (x =? y)%Z && zlist_eqb xs ys
  | _, _ => false
  end.

Definition lines_named (f n : string) (bs : list block) : list Z :=
  flat_map (fun b => if String.eqb (fst b) f
                     then map fst (filter (fun l => String.eqb (snd l) n) (snd b)) else []) bs.

Definition check_image (base : Z) (img : list N) (bs : list block)
           (markers : list (string * string * list N)) : bool :=
  forallb (fun fm => let '(f, n, m) := fm in
                     zlist_eqb (map (fun v => (v - base)%Z) (lines_named f n bs)) (occurrences m img 0%Z))
          markers.
