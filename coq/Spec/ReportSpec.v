(* Spec for C07 -- independent of the representation used by reports.py / _cli.py (frozen text).

   (1) "error-severity diagnostic": a report whose severity is error or critical (both are printed
       as "Error"); warnings are the third severity.
   (2) Which warnings the command line selects: the arguments of -W are read left to right; an
       argument names a warning, or a class of warnings, and says "on" (plain) or "off" (prefix
       no-); for a given warning the LAST argument that mentions it decides; a warning that no
       argument mentions is shown iff it belongs to the class "default".
   The class table is a parameter (its content is not constrained by the property). *)
From Coq Require Import String Ascii List Bool.
Import ListNotations.
Open Scope string_scope.

Inductive severity := SevError | SevCritical | SevWarning.

Definition error_severity (s : severity) : bool :=
  match s with SevWarning => false | SevError | SevCritical => true end.

(* the build fails iff at least one error-severity diagnostic was issued *)
Definition spec_fails (issued : list severity) : bool := existsb error_severity issued.

Section Selection.
  Variable classes : list (string * list string).

  Fixpoint spec_class (name : string) (cs : list (string * list string)) : option (list string) :=
    match cs with
    | [] => None
    | (k, members) :: r => if String.eqb k name then Some members else spec_class name r
    end.

  (* "no-xyz" -> Some "xyz" *)
  Definition strip_no (arg : string) : option string :=
    match arg with
    | String a (String b (String c rest)) =>
        if (Ascii.eqb a "n" && Ascii.eqb b "o" && Ascii.eqb c "-")%bool then Some rest else None
    | _ => None
    end.

  Definition names_of (name : string) : list string :=
    match spec_class name classes with Some members => members | None => [name] end.

  (* what one argument says about warning [w]: nothing, on, or off *)
  Definition mention (arg w : string) : option bool :=
    match strip_no arg with
    | Some rest => if existsb (String.eqb w) (names_of rest) then Some false else None
    | None => if existsb (String.eqb w) (names_of arg) then Some true else None
    end.

  Fixpoint last_mention (args : list string) (w : string) : option bool :=
    match args with
    | [] => None
    | a :: rest => match last_mention rest w with
                   | Some b => Some b
                   | None => mention a w
                   end
    end.

  Definition spec_warning_shown (args : list string) (w : string) : bool :=
    match last_mention args w with
    | Some b => b
    | None => existsb (String.eqb w) (match spec_class "default" classes with Some m => m | None => [] end)
    end.

  (* what reaches the user: every error-severity report, and the selected warnings *)
  Definition spec_shown (args : list string) (sev : severity) (w : string) : bool :=
    error_severity sev || spec_warning_shown args w.
End Selection.
