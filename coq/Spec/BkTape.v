(* C13 -- an independent demodulator for BK-0010 tape recordings (8-bit unsigned PCM samples).
   Frozen text: written from the tape rules below, not from the strings in pdpy11/bk_wav.py.

   Signal.  A sample is "high" when it lies on or above the zero line of 8-bit unsigned PCM
   (128), "low" otherwise.  A *pulse* is a maximal run of high samples followed by the maximal
   run of low samples after it; its *period* is the sum of the two widths.

   Standard (monitor) format, all widths relative to the period p0 of the pilot tone:
       short  : period < 1.5 p0          (pilot pulse, bit separator, data "0")
       long   : 1.5 p0 <= period < 3 p0  (data "1")
       marker : period >= 3 p0           (nominally 4 p0)
     recording := pilot (>= 512 short pulses)  marker  long
                  block pilot (>= 4 short pulses)  marker  long
                  header: 20 bytes
                  block pilot (>= 4 short pulses)  marker  long
                  data: <length> bytes, then the checksum: 2 bytes
                  trailer (ignored)
     bit  := one short separator pulse, then one data pulse: short = 0, long = 1
     byte := 8 bits, least significant bit first
     header := base address (2 bytes, little endian), length (2 bytes, little endian),
               name (16 bytes)

   Turbo format (one pulse per bit, decided by the width of its high run alone, relative to
   the high width h0 of the pilot pulses; low runs only separate the high runs, so silent
   gaps between blocks are immaterial):
       zero   : 2 h <= h0
       marker : h >= 3 h0
       one    : otherwise (in particular h = h0: the pilot itself)
     recording := pilot (>= 512 pulses of class one)  marker
                  header: 20 bytes, data: <length> bytes, checksum: 2 bytes, trailer (ignored)

   Checksum: 16-bit sum of the data bytes with end-around carry -- add a byte, and when the
   sum leaves 16 bits add the carry back in. *)
From Coq Require Import List ZArith Bool.
Import ListNotations.
Open Scope Z_scope.

(* ------------------------------------------------------------------ signal level *)
Definition high (s : Z) : bool := 128 <=? s.

(* [pulses_aux h l s]: h = width of the high run of the pulse being read (0: none yet),
   l = width of its low run so far *)
Fixpoint pulses_aux (h l : Z) (s : list bool) : list (Z * Z) :=
  match s with
  | [] => if h =? 0 then [] else [(h, l)]
  | true :: r =>
      if l =? 0 then pulses_aux (h + 1) 0 r          (* the high run goes on *)
      else (h, l) :: pulses_aux 1 0 r                (* rising edge: the pulse is complete *)
  | false :: r =>
      if h =? 0 then pulses_aux 0 0 r                (* low samples before the first pulse *)
      else pulses_aux h (l + 1) r
  end.

Definition pulses (s : list bool) : list (Z * Z) := pulses_aux 0 0 s.

(* widths of the maximal runs of high samples *)
Fixpoint high_runs_aux (h : Z) (s : list bool) : list Z :=
  match s with
  | [] => if h =? 0 then [] else [h]
  | true :: r => high_runs_aux (h + 1) r
  | false :: r => if h =? 0 then high_runs_aux 0 r else h :: high_runs_aux 0 r
  end.

Definition high_runs (s : list bool) : list Z := high_runs_aux 0 s.

(* ------------------------------------------------------------------ bits and bytes *)
Section Reader.
  Variable X : Type.
  Variable read_bit : list X -> option (Z * list X).

  Fixpoint read_bits (n : nat) (ps : list X) : option (list Z * list X) :=
    match n with
    | O => Some ([], ps)
    | S k => match read_bit ps with
             | Some (b, r) => match read_bits k r with
                              | Some (bs, r') => Some (b :: bs, r')
                              | None => None
                              end
             | None => None
             end
    end.

  (* least significant bit first *)
  Fixpoint bits_val (bs : list Z) : Z :=
    match bs with
    | [] => 0
    | b :: r => b + 2 * bits_val r
    end.

  Definition read_byte (ps : list X) : option (Z * list X) :=
    match read_bits 8 ps with
    | Some (bs, r) => Some (bits_val bs, r)
    | None => None
    end.

  Fixpoint read_bytes (n : nat) (ps : list X) : option (list Z * list X) :=
    match n with
    | O => Some ([], ps)
    | S k => match read_byte ps with
             | Some (b, r) => match read_bytes k r with
                              | Some (bs, r') => Some (b :: bs, r')
                              | None => None
                              end
             | None => None
             end
    end.
End Reader.
Arguments read_bits {X}.
Arguments read_byte {X}.
Arguments read_bytes {X}.

Definition word (lo hi : Z) : Z := lo + 256 * hi.

(* what a recording carries *)
Record tape := { t_base : Z; t_length : Z; t_name : list Z; t_data : list Z; t_checksum : Z }.

Definition header_fields (hdr : list Z) : option (Z * Z * list Z) :=
  match hdr with
  | b0 :: b1 :: l0 :: l1 :: name => Some (word b0 b1, word l0 l1, name)
  | _ => None
  end.

Definition min_pilot : Z := 512.
Definition min_block_pilot : Z := 4.

(* ------------------------------------------------------------------ standard format *)
Inductive pclass := Short | Long | Marker.

Definition period (p : Z * Z) : Z := fst p + snd p.

Definition classify (p0 w : Z) : pclass :=
  if 2 * w <? 3 * p0 then Short else if w <? 3 * p0 then Long else Marker.

Definition is_short p0 p := match classify p0 (period p) with Short => true | _ => false end.
Definition is_long p0 p := match classify p0 (period p) with Long => true | _ => false end.
Definition is_marker p0 p := match classify p0 (period p) with Marker => true | _ => false end.

(* number of leading short pulses, and what follows them *)
Fixpoint skip_short (p0 : Z) (ps : list (Z * Z)) : Z * list (Z * Z) :=
  match ps with
  | p :: r => if is_short p0 p then let (n, r') := skip_short p0 r in (n + 1, r') else (0, ps)
  | [] => (0, [])
  end.

Definition read_bit_std (p0 : Z) (ps : list (Z * Z)) : option (Z * list (Z * Z)) :=
  match ps with
  | sep :: d :: r =>
      if is_short p0 sep then
        match classify p0 (period d) with
        | Short => Some (0, r)
        | Long => Some (1, r)
        | Marker => None
        end
      else None
  | _ => None
  end.

(* pilot of at least [need] short pulses, then marker, then long *)
Definition lead_in (p0 need : Z) (ps : list (Z * Z)) : option (list (Z * Z)) :=
  let (n, r) := skip_short p0 ps in
  if n <? need then None else
  match r with
  | m :: o :: r' => if is_marker p0 m && is_long p0 o then Some r' else None
  | _ => None
  end.

Definition demod_std (ps : list (Z * Z)) : option tape :=
  match ps with
  | [] => None
  | first :: _ =>
      let p0 := period first in
      match lead_in p0 min_pilot ps with None => None | Some r0 =>
      match lead_in p0 min_block_pilot r0 with None => None | Some r1 =>
      match read_bytes (read_bit_std p0) 20 r1 with None => None | Some (hdr, r2) =>
      match header_fields hdr with None => None | Some (base, length, name) =>
      match lead_in p0 min_block_pilot r2 with None => None | Some r3 =>
      match read_bytes (read_bit_std p0) (Z.to_nat length) r3 with None => None | Some (data, r4) =>
      match read_bytes (read_bit_std p0) 2 r4 with
      | Some ([c0; c1], _) =>
          Some {| t_base := base; t_length := length; t_name := name; t_data := data; t_checksum := word c0 c1 |}
      | _ => None
      end end end end end end end
  end.

(* ------------------------------------------------------------------ turbo format *)
Inductive tclass := TZero | TOne | TMarker.

Definition classify_turbo (h0 h : Z) : tclass :=
  if 2 * h <=? h0 then TZero else if 3 * h0 <=? h then TMarker else TOne.

Fixpoint skip_pilot_turbo (h0 : Z) (hs : list Z) : Z * list Z :=
  match hs with
  | h :: r => match classify_turbo h0 h with
              | TOne => let (n, r') := skip_pilot_turbo h0 r in (n + 1, r')
              | _ => (0, hs)
              end
  | [] => (0, [])
  end.

Definition read_bit_turbo (h0 : Z) (hs : list Z) : option (Z * list Z) :=
  match hs with
  | h :: r => match classify_turbo h0 h with
              | TZero => Some (0, r)
              | TOne => Some (1, r)
              | TMarker => None
              end
  | [] => None
  end.

Definition demod_turbo (hs : list Z) : option tape :=
  match hs with
  | [] => None
  | h0 :: _ =>
      let (n, r0) := skip_pilot_turbo h0 hs in
      if n <? min_pilot then None else
      match r0 with
      | m :: r1 =>
          match classify_turbo h0 m with
          | TMarker =>
              match read_bytes (read_bit_turbo h0) 20 r1 with None => None | Some (hdr, r2) =>
              match header_fields hdr with None => None | Some (base, length, name) =>
              match read_bytes (read_bit_turbo h0) (Z.to_nat length) r2 with None => None | Some (data, r3) =>
              match read_bytes (read_bit_turbo h0) 2 r3 with
              | Some ([c0; c1], _) =>
                  Some {| t_base := base; t_length := length; t_name := name; t_data := data; t_checksum := word c0 c1 |}
              | _ => None
              end end end end
          | _ => None
          end
      | [] => None
      end
  end.

(* ------------------------------------------------------------------ the demodulator *)
Definition demod (turbo : bool) (samples : list Z) : option tape :=
  let s := map high samples in
  if turbo then demod_turbo (high_runs s) else demod_std (pulses s).

(* ------------------------------------------------------------------ checksum *)
(* add a byte to the 16-bit accumulator; a carry out of bit 15 is added back in *)
Definition add_eac (acc b : Z) : Z :=
  let s := acc + b in (s mod 65536) + (s / 65536).

Definition cksum_spec (data : list Z) : Z := fold_left add_eac data 0.

(* a recording carries the image (base, code) under the 16-byte tape name [name] *)
Definition carries (t : tape) (base : Z) (code name : list Z) : Prop :=
  t_base t = base /\ t_length t = Z.of_nat (length code) /\ t_name t = name /\
  t_data t = code /\ t_checksum t = cksum_spec code.

Fixpoint zlist_eqb (a b : list Z) : bool :=
  match a, b with
  | [], [] => true
  | x :: a', y :: b' => (x =? y) && zlist_eqb a' b'
  | _, _ => false
  end.

Definition carriesb (t : tape) (base : Z) (code name : list Z) : bool :=
  (t_base t =? base) && (t_length t =? Z.of_nat (length code)) && zlist_eqb (t_name t) name &&
  zlist_eqb (t_data t) code && (t_checksum t =? cksum_spec code).
