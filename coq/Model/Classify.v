(* Model/Classify.v -- the classification of an operand token tree into an addressing form (C01).

   Mirrors, branch by branch and in source order (pdpy11 at HEAD):
     insns.py   REGISTER_NAMES, try_as_register, try_accumulator_from_symbol,
                RegisterModeOperandStub.encode: hoist() followed by the isinstance cascade,
                FP11RMOperandStub.encode (accumulator / implicit accumulator, then super().encode)
   What the cascade returns here is the *form*: which addressing mode was chosen, which register token
   was recognised and which SUBTREE the code will later evaluate for the extension word.  The evaluation
   of that subtree (get_as_int / resolve) and the opcode fields are Model/Insns.v + Model/TreeCache.v.

   Token tree: an own small inductive that mirrors the classes of types.py / operators.py (the tree of
   Model/TreeCache.v carries operator caches, number flags and operator *strings*, which the cascade never
   reads; here operators are enumerated so that no ill-formed tree exists, e.g. an InfixOperator named "$").
   The enumeration is checked against operators.py by tools/classify_corr.py (fail closed on an unknown class).

   Python partiality: no branch of hoist / the cascade can raise (every attribute access is guarded by the
   isinstance test before it), so [classify] always returns Ok; kept in [res] for uniformity, totality is a
   theorem (Proofs/ClassifyP.v).  Not modelled: RecursionError of hoist() on operand trees deeper than the
   interpreter's recursion limit.  FP11: reports.error("implicit-accumulator") for r6/r7/sp/pc is [Err].
   str.lower() is modelled on ASCII letters only (no non-ASCII character lower-cases to a letter of
   r0-r7/sp/pc/ac0-ac5 except U+212A KELVIN SIGN -> k, which occurs in none of them).
   No proofs here. *)
From Coq Require Import ZArith List String Ascii Bool NArith.
From Verif Require Import Base.Res.
From Verif Require Spec.PDP11.
Import ListNotations.
Open Scope string_scope.
Open Scope list_scope.
Open Scope Z_scope.

(* ------------------------------------------------------------------------------------------ *)
(* token tree *)

(* operators.py: InfixOperator subclasses other than call *)
Inductive infix_op := IMul | IDiv | IMod | IAdd | ISub | IShl | IShr | ILsh | IAnd | IXor | IOr | IOr2.
(* PrefixOperator subclasses: pos neg inv inv2 immediate deferred register *)
Inductive prefix_op := PPos | PNeg | PInv | PInv2 | PImm | PDef | PPct.
(* PostfixOperator subclasses: postadd postsub *)
Inductive postfix_op := QAdd | QSub.

Inductive optree :=
| TSym (name : string) (nec_label : bool)     (* types.Symbol: name as written, is_necessarily_label *)
| TNum (v : Z)                                (* types.Number *)
| TDot                                        (* types.InstructionPointer *)
| TOther (what : string)                      (* CharLiteral, QuotedString, AngleBracketedChar, StringConcatenation *)
| TParen (round : bool) (e : optree)          (* types.ParenthesizedExpression; round = (opening_parenthesis == "(") *)
| TInfix (op : infix_op) (l r : optree)
| TPrefix (op : prefix_op) (e : optree)
| TPostfix (op : postfix_op) (e : optree)
| TCall (l r : optree).                       (* operators.call, 'l(r)' *)

(* ------------------------------------------------------------------------------------------ *)
(* names *)
Definition lower_ascii (c : ascii) : ascii :=
  let n := N_of_ascii c in
  if (N.leb 65 n && N.leb n 90)%bool then ascii_of_N (n + 32) else c.
Fixpoint lower (s : string) : string :=
  match s with
  | EmptyString => EmptyString
  | String c s' => String (lower_ascii c) (lower s')
  end.

(* insns.REGISTER_NAMES on the lower-cased name *)
Definition reg_of_name (n : string) : option Z :=
  if String.eqb n "r0" then Some 0 else if String.eqb n "r1" then Some 1 else
  if String.eqb n "r2" then Some 2 else if String.eqb n "r3" then Some 3 else
  if String.eqb n "r4" then Some 4 else if String.eqb n "r5" then Some 5 else
  if String.eqb n "r6" then Some 6 else if String.eqb n "r7" then Some 7 else
  if String.eqb n "sp" then Some 6 else if String.eqb n "pc" then Some 7 else None.

(* len(name) == 3 and "ac0" <= name <= "ac5": exactly the six names (the code points '0'..'5' are contiguous) *)
Definition acc_of_name (n : string) : option Z :=
  if String.eqb n "ac0" then Some 0 else if String.eqb n "ac1" then Some 1 else
  if String.eqb n "ac2" then Some 2 else if String.eqb n "ac3" then Some 3 else
  if String.eqb n "ac4" then Some 4 else if String.eqb n "ac5" then Some 5 else None.

(* ------------------------------------------------------------------------------------------ *)
(* what try_as_register returns: an int, or a Deferred get_as_int(bitness=3, unsigned) over the operand of '%' *)
Inductive regref := RName (n : Z) | RPct (e : optree).

Definition try_reg (t : optree) : option regref :=
  match t with
  | TSym n false => match reg_of_name (lower n) with Some r => Some (RName r) | None => None end
  | TPrefix PPct e => Some (RPct e)
  | _ => None
  end.
Definition is_reg (t : optree) : bool := match try_reg t with Some _ => true | None => false end.

(* try_accumulator_from_symbol: isinstance(operand, Symbol) only -- is_necessarily_label is NOT looked at *)
Definition try_acc (t : optree) : option Z :=
  match t with
  | TSym n _ => acc_of_name (lower n)
  | _ => None
  end.

(* ------------------------------------------------------------------------------------------ *)
(* hoist(): 'a+b(c)' is parsed as 'a+(b(c))'; a call whose argument is a register is moved to the top.
   Only the rhs spine of infix operators (call excluded) and the operand of prefix operators is walked. *)
Fixpoint hoist (t : optree) : optree :=
  match t with
  | TInfix op l r =>
      let r' := hoist r in
      match r' with
      | TCall cl cr => if is_reg cr then TCall (TInfix op l cl) cr else TInfix op l r'
      | _ => TInfix op l r'
      end
  | TPrefix op e =>
      let e' := hoist e in
      match e' with
      | TCall cl cr => if is_reg cr then TCall (TPrefix op cl) cr else TPrefix op e'
      | _ => TPrefix op e'
      end
  | _ => t
  end.

(* ------------------------------------------------------------------------------------------ *)
(* the forms.  The expression carried is the subtree the code keeps for the extension word. *)
Inductive oform :=
| FReg (r : regref)                 (* rN sp pc %e *)
| FRegDef (r : regref)              (* (rN)   legacy @rN *)
| FAutoInc (r : regref)             (* (rN)+ *)
| FAutoIncDef (r : regref)          (* @(rN)+ *)
| FAutoDec (r : regref)             (* -(rN) *)
| FAutoDecDef (r : regref)          (* @-(rN) *)
| FIndex (e : optree) (r : regref)  (* e(rN) *)
| FIndexDef (e : optree) (r : regref)   (* @e(rN);  @(rN) is FIndexDef (TNum 0) with warning implicit-index: the code emits b"\0\0" *)
| FImm (e : optree)                 (* #e *)
| FAbs (e : optree)                 (* @#e *)
| FRel (e : optree)                 (* e *)
| FRelDef (e : optree)              (* @e *)
| FAcc (n : Z)                      (* FP11 only: acN *)
| FAccReg (r : regref).             (* FP11 only: a CPU register written where an accumulator is meant *)

(* ParenthesizedExpression with opening_parenthesis == "(" around a register *)
Definition paren_reg (t : optree) : option regref :=
  match t with
  | TParen true e => try_reg e
  | _ => None
  end.

Definition outcome := (oform * list string)%type.      (* form, identifiers of reports.warning *)
Definition with_reg (o : option regref) (f : regref -> outcome) : option outcome :=
  match o with Some r => Some (f r) | None => None end.

(* the 'if' statements of RegisterModeOperandStub.encode after hoisting, in source order;
   None = the condition is false or try_as_register returned None: fall through *)
Definition b_reg (t : optree) : option outcome := with_reg (try_reg t) (fun r => (FReg r, [])).
Definition b_regdef (t : optree) : option outcome := with_reg (paren_reg t) (fun r => (FRegDef r, [])).
Definition b_legacy (t : optree) : option outcome :=
  match t with
  | TPrefix PDef e => with_reg (try_reg e) (fun r => (FRegDef r, ["legacy-deferred"]))
  | _ => None
  end.
Definition b_autoinc (t : optree) : option outcome :=
  match t with
  | TPostfix QAdd e => with_reg (paren_reg e) (fun r => (FAutoInc r, []))
  | _ => None
  end.
Definition b_autoincdef (t : optree) : option outcome :=
  match t with
  | TPrefix PDef (TPostfix QAdd e) => with_reg (paren_reg e) (fun r => (FAutoIncDef r, []))
  | _ => None
  end.
Definition b_autodec (t : optree) : option outcome :=
  match t with
  | TPrefix PNeg e => with_reg (paren_reg e) (fun r => (FAutoDec r, []))
  | _ => None
  end.
Definition b_autodecdef (t : optree) : option outcome :=
  match t with
  | TPrefix PDef (TPrefix PNeg e) => with_reg (paren_reg e) (fun r => (FAutoDecDef r, []))
  | _ => None
  end.
Definition b_indexdef (t : optree) : option outcome :=
  match t with
  | TCall (TPrefix PDef x) rs => with_reg (try_reg rs) (fun r => (FIndexDef x r, []))
  | _ => None
  end.
Definition b_index (t : optree) : option outcome :=
  match t with
  | TCall l rs => with_reg (try_reg rs) (fun r => (FIndex l r, []))
  | _ => None
  end.
Definition b_implicit (t : optree) : option outcome :=
  match t with
  | TPrefix PDef e => with_reg (paren_reg e) (fun r => (FIndexDef (TNum 0) r, ["implicit-index"]))
  | _ => None
  end.
Definition b_imm (t : optree) : option outcome :=
  match t with TPrefix PImm e => Some (FImm e, []) | _ => None end.
Definition b_abs (t : optree) : option outcome :=
  match t with TPrefix PDef (TPrefix PImm e) => Some (FAbs e, []) | _ => None end.
Definition b_reldef (t : optree) : option outcome :=
  match t with TPrefix PDef e => Some (FRelDef e, []) | _ => None end.

Definition branches : list (optree -> option outcome) :=
  [b_reg; b_regdef; b_legacy; b_autoinc; b_autoincdef; b_autodec; b_autodecdef;
   b_indexdef; b_index; b_implicit; b_imm; b_abs; b_reldef].

Fixpoint first_of (bs : list (optree -> option outcome)) (t : optree) : outcome :=
  match bs with
  | [] => (FRel t, [])                                   (* the final 'return 0o67, ...' *)
  | b :: bs' => match b t with Some x => x | None => first_of bs' t end
  end.

Definition cascade (t : optree) : outcome := first_of branches t.

(* RegisterModeOperandStub.encode: operand = hoist(operand), then the cascade *)
Definition classify (t : optree) : res outcome := Ok (cascade (hoist t)).

(* FP11RMOperandStub.encode *)
Definition classify_fp (t : optree) : res outcome :=
  match try_acc t with
  | Some n => Ok (FAcc n, [])
  | None =>
      match try_reg t with
      | Some (RName n) =>
          if n <? 6 then Ok (FAccReg (RName n), ["implicit-accumulator"])    (* reports.warning *)
          else Err ["implicit-accumulator"]                                   (* reports.error *)
      | Some (RPct e) => Ok (FAccReg (RPct e), ["implicit-accumulator:when-resolved"])   (* check() runs on the awaited index *)
      | None => classify t
      end
  end.

(* ------------------------------------------------------------------------------------------ *)
(* the mode bits the code passes to with_mode / returns (without the register) and the register *)
Definition mode_bits (o : oform) : Z :=
  match o with
  | FReg _ => 0 | FRegDef _ => 8 | FAutoInc _ => 16 | FAutoIncDef _ => 24
  | FAutoDec _ => 32 | FAutoDecDef _ => 40 | FIndex _ _ => 48 | FIndexDef _ _ => 56
  | FImm _ => 23 | FAbs _ => 31 | FRel _ => 55 | FRelDef _ => 63
  | FAcc n => n | FAccReg _ => 0
  end.
Definition reg_of (o : oform) : option regref :=
  match o with
  | FReg r | FRegDef r | FAutoInc r | FAutoIncDef r | FAutoDec r | FAutoDecDef r
  | FIndex _ r | FIndexDef _ r | FAccReg r => Some r
  | _ => None
  end.
Definition expr_of (o : oform) : option optree :=
  match o with
  | FIndex e _ | FIndexDef e _ | FImm e | FAbs e | FRel e | FRelDef e => Some e
  | _ => None
  end.
(* the 6-bit field when the register is a name *)
Definition field_of (o : oform) : option Z :=
  match reg_of o with
  | Some (RName n) => Some (Z.lor (mode_bits o) n)
  | Some (RPct _) => None
  | None => Some (mode_bits o)
  end.

(* the abstract operand of Spec/PDP11.v once the kept subtrees have values ([ev]) *)
Definition denote (ev : optree -> Z) (o : oform) : PDP11.operand :=
  let rv r := match r with RName n => n | RPct e => ev e end in
  match o with
  | FReg r => PDP11.OReg (rv r) | FRegDef r => PDP11.ORegDef (rv r)
  | FAutoInc r => PDP11.OAutoInc (rv r) | FAutoIncDef r => PDP11.OAutoIncDef (rv r)
  | FAutoDec r => PDP11.OAutoDec (rv r) | FAutoDecDef r => PDP11.OAutoDecDef (rv r)
  | FIndex e r => PDP11.OIndex (ev e) (rv r) | FIndexDef e r => PDP11.OIndexDef (ev e) (rv r)
  | FImm e => PDP11.OImm (ev e) | FAbs e => PDP11.OAbs (ev e)
  | FRel e => PDP11.ORel (ev e) | FRelDef e => PDP11.ORelDef (ev e)
  | FAcc n => PDP11.OAcc n | FAccReg r => PDP11.OReg (rv r)
  end.

(* ------------------------------------------------------------------------------------------ *)
(* spelling: the tree the parser builds for the written form *)

Definition reg_name (n : Z) : string :=
  match n with
  | 0 => "r0" | 1 => "r1" | 2 => "r2" | 3 => "r3" | 4 => "r4" | 5 => "r5" | 6 => "r6" | 7 => "r7"
  | _ => "?"
  end.
Definition spell_reg (r : regref) : optree :=
  match r with RName n => TSym (reg_name n) false | RPct e => TPrefix PPct e end.

(* 'e(r)' as the parser reads it: call binds tighter than every prefix / infix operator, so the call
   ends up at the bottom of the rhs / operand spine of e *)
Fixpoint attach (e rs : optree) : optree :=
  match e with
  | TInfix op l r => TInfix op l (attach r rs)
  | TPrefix op x => TPrefix op (attach x rs)
  | _ => TCall e rs
  end.

Definition spell_with (sr : regref -> optree) (o : oform) : optree :=
  match o with
  | FReg r => sr r
  | FRegDef r => TParen true (sr r)
  | FAutoInc r => TPostfix QAdd (TParen true (sr r))
  | FAutoIncDef r => TPrefix PDef (TPostfix QAdd (TParen true (sr r)))
  | FAutoDec r => TPrefix PNeg (TParen true (sr r))
  | FAutoDecDef r => TPrefix PDef (TPrefix PNeg (TParen true (sr r)))
  | FIndex e r => attach e (sr r)
  | FIndexDef e r => attach (TPrefix PDef e) (sr r)
  | FImm e => TPrefix PImm e
  | FAbs e => TPrefix PDef (TPrefix PImm e)
  | FRel e => e
  | FRelDef e => TPrefix PDef e
  | FAcc n => TSym (String "a" (String "c" (String (ascii_of_N (48 + Z.to_N n)) EmptyString))) false
  | FAccReg r => sr r
  end.
Definition spell : oform -> optree := spell_with spell_reg.

(* ------------------------------------------------------------------------------------------ *)
(* which written forms are legal, i.e. are not read as another form *)

(* the call of hoist does not fire on e: no '(reg)' at the bottom of the spine *)
Definition no_hoist (e : optree) : bool :=
  match hoist e with TCall _ r => negb (is_reg r) | _ => true end.
Definition is_paren_reg (t : optree) : bool := match paren_reg t with Some _ => true | None => false end.
Definition top_def (e : optree) : bool := match e with TPrefix PDef _ => true | _ => false end.

(* e standing alone is an expression operand: not something an earlier branch of the cascade takes *)
Definition expr_ok (e : optree) : bool :=
  no_hoist e && negb (is_reg e) && negb (is_paren_reg e) &&
  match e with
  | TPrefix PDef _ | TPrefix PImm _ => false
  | TPrefix PNeg x => negb (is_paren_reg x)
  | TPostfix QAdd x => negb (is_paren_reg x)
  | TCall _ r => negb (is_reg r)
  | _ => true
  end.
(* e after '@' is an expression: *)
Definition expr_ok_def (e : optree) : bool :=
  no_hoist e && negb (is_reg e) && negb (is_paren_reg e) &&
  match e with
  | TPrefix PImm _ => false
  | TPrefix PNeg x => negb (is_paren_reg x)
  | TPostfix QAdd x => negb (is_paren_reg x)
  | TCall _ r => negb (is_reg r)
  | _ => true
  end.

Definition wf_reg (top : bool) (r : regref) : Prop :=
  match r with
  | RName n => 0 <= n <= 7
  | RPct e => if top then no_hoist e = true else True     (* '%x(r1)' is read as the index form (%x)(r1) *)
  end.

Definition wf (o : oform) : Prop :=
  match o with
  | FReg r => wf_reg true r
  | FRegDef r | FAutoInc r | FAutoIncDef r | FAutoDec r | FAutoDecDef r => wf_reg false r
  | FIndex e r => wf_reg false r /\ top_def e = false      (* '@e(r)' is the index deferred form *)
  | FIndexDef e r => wf_reg false r
  | FImm e | FAbs e => no_hoist e = true                   (* '#x(r1)' is read as (#x)(r1) *)
  | FRel e => expr_ok e = true
  | FRelDef e => expr_ok_def e = true
  | FAcc _ | FAccReg _ => False                            (* never produced by RegisterModeOperandStub *)
  end.

(* ------------------------------------------------------------------------------------------ *)
(* the set of all trees read as a form (incl. legacy spellings, any register spelling, any position of
   the '(reg)' on the spine), for the completeness statement *)
Inductive attached : optree -> optree -> optree -> Prop :=
| At_here e rs : attached (TCall e rs) e rs
| At_infix op l t e rs : attached t e rs -> attached (TInfix op l t) (TInfix op l e) rs
| At_prefix op t e rs : attached t e rs -> attached (TPrefix op t) (TPrefix op e) rs.

Inductive spells : optree -> oform -> list string -> Prop :=
| S_reg rs r : try_reg rs = Some r -> spells rs (FReg r) []
| S_regdef rs r : try_reg rs = Some r -> spells (TParen true rs) (FRegDef r) []
| S_legacy rs r : try_reg rs = Some r -> spells (TPrefix PDef rs) (FRegDef r) ["legacy-deferred"]
| S_autoinc rs r : try_reg rs = Some r -> spells (TPostfix QAdd (TParen true rs)) (FAutoInc r) []
| S_autoincdef rs r : try_reg rs = Some r -> spells (TPrefix PDef (TPostfix QAdd (TParen true rs))) (FAutoIncDef r) []
| S_autodec rs r : try_reg rs = Some r -> spells (TPrefix PNeg (TParen true rs)) (FAutoDec r) []
| S_autodecdef rs r : try_reg rs = Some r -> spells (TPrefix PDef (TPrefix PNeg (TParen true rs))) (FAutoDecDef r) []
| S_index t e rs r : try_reg rs = Some r -> attached t e rs -> top_def e = false -> spells t (FIndex e r) []
| S_indexdef t e rs r : try_reg rs = Some r -> attached t (TPrefix PDef e) rs -> spells t (FIndexDef e r) []
| S_implicit rs r : try_reg rs = Some r -> spells (TPrefix PDef (TParen true rs)) (FIndexDef (TNum 0) r) ["implicit-index"]
| S_imm e : spells (TPrefix PImm e) (FImm e) []
| S_abs e : spells (TPrefix PDef (TPrefix PImm e)) (FAbs e) []
| S_reldef e : spells (TPrefix PDef e) (FRelDef e) []
| S_rel e : spells e (FRel e) [].

(* contexts an expression is written in, for the opacity statement *)
Inductive ectx := XRel | XRelDef | XImm | XAbs | XIndex (rs : optree) | XIndexDef (rs : optree).
Definition plug (c : ectx) (e : optree) : optree :=
  match c with
  | XRel => e | XRelDef => TPrefix PDef e | XImm => TPrefix PImm e | XAbs => TPrefix PDef (TPrefix PImm e)
  | XIndex rs => attach e rs | XIndexDef rs => attach (TPrefix PDef e) rs
  end.
(* what of e the cascade may look at in context c *)
Definition accepts (c : ectx) (e : optree) : bool :=
  match c with
  | XRel => expr_ok e | XRelDef => expr_ok_def e
  | XImm | XAbs => no_hoist e
  | XIndex rs => is_reg rs && negb (top_def e)
  | XIndexDef rs => is_reg rs
  end.
Definition ctx_mode (c : ectx) : Z :=
  match c with XRel => 55 | XRelDef => 63 | XImm => 23 | XAbs => 31 | XIndex _ => 48 | XIndexDef _ => 56 end.
Definition mode_of (r : res outcome) : option Z :=
  match r with Ok (o, _) => Some (mode_bits o) | _ => None end.
Definition kept_of (r : res outcome) : option optree :=
  match r with Ok (o, _) => expr_of o | _ => None end.
