(* A small assembly model, sufficient for the relocation law (C09).

   A program is a list of items; each contributes bytes as a function of the link base b and of
   its own position.  Positions are offsets from the base (the address of a byte is b + pos).
   Address-valued expressions are the linear ones of domain D9 (labels, constants, + - unary-,
   multiplication by a constant); they are evaluated through Model/Poly.v exactly as the code does
   (a label is the polynomial LA + offset; the number is taken when the base is known).

   item           code
   Fixed          opcode words, register/mode fields, literal data: bytes that mention no address
   AbsWord e      a 16-bit field filled by get_as_int(..., 16, unsigned=False): immediate #e, absolute @#e,
                  index e(rN) / @e(rN), .word e
   RelWord e      relative e / relative deferred @e:  (e - rel_address - 2) mod 2^16, where rel_address is
                  the address of this very word (insns.py RegisterModeOperandStub.encode)
   Branch op e    br & co: word op + ((e - (addr+2)) div 2 mod 256), 8-bit signed word offset, range and parity checked
   Sob op e       sob: word op + (((addr+2) - e) div 2 mod 64), backward only
   ByteExpr e     .byte e (int8 rule)
   Align m        .align m (.even is Align 2): (-addr) mod m zero bytes
   Odd            .odd
   NeedEven       the check `.word` makes: an odd address is the error odd-address
   No proofs in this file. *)
From Coq Require Import String List ZArith Bool.
From Verif Require Import Base.Res Base.Bytes Model.Poly.
Import ListNotations.
Open Scope Z_scope.

Inductive aexpr :=
| AConst (k : Z)
| ALab (off : Z)               (* a label of the program: LA + off *)
| AAdd (a b : aexpr)
| ASub (a b : aexpr)
| ANeg (a : aexpr)
| AScale (k : Z) (a : aexpr).  (* k * a  or  a * k *)

Fixpoint apoly (e : aexpr) : poly :=
  match e with
  | AConst k => pconst k
  | ALab off => addc (pvar LA) off
  | AAdd a b => add (apoly a) (apoly b)
  | ASub a b => sub (apoly a) (apoly b)
  | ANeg a => neg (apoly a)
  | AScale k a => scale k (apoly a)
  end.

Definition at_base (b : Z) : var -> Z := fun x => if x =? LA then b else 0.
(* the number the code obtains by wait() once the base is b *)
Definition aval (b : Z) (e : aexpr) : Z := eval (apoly e) (at_base b).
(* the coefficient of the base in e *)
Definition acoef (e : aexpr) : Z := coeff LA (apoly e).

Inductive item :=
| Fixed (bs : list Z)
| AbsWord (e : aexpr)
| RelWord (e : aexpr)
| Branch (op : Z) (e : aexpr)
| Sob (op : Z) (e : aexpr)
| ByteExpr (e : aexpr)
| Align (m : Z)
| Odd
| NeedEven
| Resv (n : Z).   (* `. = . + n` with the base set: n zero bytes; the new address goes through get_as_int 16 *)

Definition get_as_int (bits : Z) (v : Z) : res Z :=
  if v <=? - 2 ^ bits then Err ["value-out-of-bounds"%string]
  else if 2 ^ bits <=? v then Err ["value-out-of-bounds"%string]
  else Ok (v mod 2 ^ bits).

Definition abs_field (b : Z) (e : aexpr) : res (list Z) :=
  do v <- get_as_int 16 (aval b e); Ok (le16 v).

(* pos: offset of the word itself *)
Definition rel_value (b pos : Z) (e : aexpr) : Z := (aval b e - (b + pos) - 2) mod 65536.
Definition rel_field (b pos : Z) (e : aexpr) : list Z := le16 (rel_value b pos e).

(* pos: offset of the instruction word *)
Definition branch_offset (b pos : Z) (e : aexpr) : Z := aval b e - (b + pos + 2).

Definition branch_field (b pos : Z) (op : Z) (e : aexpr) : res (list Z) :=
  let off := branch_offset b pos e in
  if (off <? -256) || (254 <? off) then Err ["branch-out-of-bounds"%string]
  else if off mod 2 =? 1 then Err ["odd-branch"%string]
  else Ok (le16 (op + (off / 2) mod 256)).

Definition sob_field (b pos : Z) (op : Z) (e : aexpr) : res (list Z) :=
  let off := branch_offset b pos e in
  if (0 <? off) || (off <? -126) then Err ["branch-out-of-bounds"%string]
  else if off mod 2 =? 1 then Err ["odd-branch"%string]
  else Ok (le16 (op + ((- off) / 2) mod 64)).

Definition item_bytes (b pos : Z) (it : item) : res (list Z) :=
  match it with
  | Fixed bs => Ok bs
  | AbsWord e => abs_field b e
  | RelWord e => Ok (rel_field b pos e)
  | Branch op e => branch_field b pos op e
  | Sob op e => sob_field b pos op e
  | ByteExpr e => do v <- get_as_int 8 (aval b e); Ok [v]
  | Align m => if m <=? 0 then Err ["value-out-of-bounds"%string]
               else Ok (zeros (Z.to_nat ((- (b + pos)) mod m)))
  | Odd => Ok (if (b + pos) mod 2 =? 0 then [0] else [])
  | NeedEven => if (b + pos) mod 2 =? 1 then Err ["odd-address"%string] else Ok []
  | Resv n => do _ <- get_as_int 16 (b + pos + n);
              if n <? 0 then Err ["value-out-of-bounds"%string] else Ok (zeros (Z.to_nat n))
  end.

(* the image, and the first error otherwise *)
Fixpoint image_from (b pos : Z) (p : list item) : res (list Z) :=
  match p with
  | [] => Ok []
  | it :: r =>
      do bs <- item_bytes b pos it;
      do t <- image_from b (pos + Z.of_nat (length bs)) r;
      Ok (bs ++ t)
  end.
Definition image (b : Z) (p : list item) : res (list Z) := image_from b 0 p.

(* size of an item, errors aside (what compile_block adds to the address) *)
Definition item_size (b pos : Z) (it : item) : Z :=
  match it with
  | Fixed bs => Z.of_nat (length bs)
  | AbsWord _ | RelWord _ | Branch _ _ | Sob _ _ => 2
  | ByteExpr _ => 1
  | Align m => if m <=? 0 then 0 else (- (b + pos)) mod m
  | Odd => if (b + pos) mod 2 =? 0 then 1 else 0
  | NeedEven => 0
  | Resv n => Z.max 0 n
  end.

(* the words that move with the base: (offset in the image, coefficient of the base in the field) *)
Definition item_moves (pos : Z) (it : item) : list (Z * Z) :=
  match it with
  | AbsWord e => if acoef e =? 0 then [] else [(pos, acoef e)]
  | RelWord e => if acoef e - 1 =? 0 then [] else [(pos, acoef e - 1)]
  | _ => []
  end.

Fixpoint abs_words_from (b pos : Z) (p : list item) : list (Z * Z) :=
  match p with
  | [] => []
  | it :: r => item_moves pos it ++ abs_words_from b (pos + item_size b pos it) r
  end.
Definition abs_words (b : Z) (p : list item) : list (Z * Z) := abs_words_from b 0 p.

(* domain D9 for a base difference d: sizes and branch fields cannot depend on the base *)
Definition item_d9 (d : Z) (it : item) : bool :=
  match it with
  | Fixed _ | AbsWord _ | RelWord _ | NeedEven | Resv _ => true
  | Branch _ e | Sob _ e => acoef e =? 1
  | ByteExpr e => acoef e =? 0
  | Align m => (0 <? m) && (d mod m =? 0)
  | Odd => d mod 2 =? 0
  end.
Definition d9 (d : Z) (p : list item) : bool := forallb (item_d9 d) p.

(* patch: walk the image; at each listed offset add c1*d to the 16-bit little-endian word there
   (modulo 2^16); every other byte is copied.  [aw] is sorted by offset. *)
Fixpoint patch (img : list Z) (pos : Z) (aw : list (Z * Z)) (d : Z) : list Z :=
  match img with
  | [] => []
  | x :: rest =>
      match aw with
      | [] => x :: rest
      | (o, c1) :: aw' =>
          if o =? pos then
            match rest with
            | y :: rest' =>
                let w := (x + 256 * y + c1 * d) mod 65536 in
                (w mod 256) :: ((w / 256) mod 256) :: patch rest' (pos + 2) aw' d
            | [] => [x]
            end
          else x :: patch rest (pos + 1) aw d
      end
  end.
