(* Hand model of Context.skip_whitespace (pdpy11/context.py) on a list of code points.  No proofs here.

       while self.pos < len(self.code):
           if self.code[self.pos].strip() == "":   self.pos += 1
           elif self.code[self.pos] == ";":
               self.pos = self.code.find("\n", self.pos)
               if self.pos == -1: self.pos = len(self.code)
           else: break

   [is_space c] is  chr(c).strip() == ""  i.e. str.isspace for one character: the 29 code points
   below (tied to CPython by an exhaustive sweep of all 0x110000 code points on every run).
   [skip s] is the text that remains at the new position; [skip_pos] the position arithmetic.
   The ';' branch (find the newline, then loop: the newline itself is blank and is stepped
   over) is folded into a mode flag so the recursion is structural. *)
From Coq Require Import List NArith Bool.
Import ListNotations.
Open Scope N_scope.

Definition is_space (c : N) : bool :=
  ((9 <=? c) && (c <=? 13)) || ((28 <=? c) && (c <=? 32)) || (c =? 133) || (c =? 160)
  || (c =? 5760) || ((8192 <=? c) && (c <=? 8202)) || (c =? 8232) || (c =? 8233)
  || (c =? 8239) || (c =? 8287) || (c =? 12288).

Definition semicolon : N := 59.
Definition newline : N := 10.

(* in_comment = true: between a ';' and the next newline *)
Fixpoint skip_aux (in_comment : bool) (s : list N) : list N :=
  match s with
  | [] => []
  | c :: r =>
      if in_comment then (if c =? newline then skip_aux false r else skip_aux true r)
      else if is_space c then skip_aux false r
      else if c =? semicolon then skip_aux true r
      else s
  end.

Definition skip (s : list N) : list N := skip_aux false s.

(* the Context object: code and pos.  pos > len(code) cannot arise (pos only moves by matches) *)
Definition skip_pos (code : list N) (pos : nat) : nat :=
  (length code - length (skip (skipn pos code)))%nat.

(* Context.eof(): skip, then the rest is blank *)
Definition eof (code : list N) (pos : nat) : bool :=
  forallb is_space (skip (skipn pos code)).
