(* Model/AsmBytes.v -- the two side conditions under which every byte of the image of Model/Asm.v is a byte (0..255):
     inserts_are_bytes p : every payload of an Insert statement (insert_file: the model carries the file's content as
                           a list of integers) consists of values 0..255 -- also inside .repeat bodies and inside
                           included / linked files;
     enc_bytes enc       : the output codec (str.encode(output_charset), an argument of the model) only yields bytes.
   No proofs here (Proofs/AsmBytesP.v, Props/R_bytes.v). *)
From Coq Require Import ZArith List String Bool NArith.
From Verif Require Import Base.Res Base.Bytes Model.Directives Model.Asm.
Import ListNotations.
Open Scope list_scope.
Open Scope Z_scope.

Fixpoint stmt_bytes (s : stmt) : bool :=
  match s with
  | Insert bs => forallb byte_ok bs
  | Repeat _ body => forallb stmt_bytes body
  | Include _ _ body => forallb stmt_bytes body
  | _ => true
  end.

Definition inserts_are_bytes (p : program) : bool := forallb stmt_bytes p.

Definition enc_bytes (enc : list N -> option (list Z)) : Prop :=
  forall s bs, enc s = Some bs -> forallb byte_ok bs = true.
