(* Model/Asm.v -- R, the reference assembler: ONE executable end-to-end model that turns an abstract
   program into (base, image, symbol table) the way pdpy11 does, by composing the component models:
     expressions    Spec/Arith.v            (eval, lit_value, sem_un, sem_bin)
     instructions   Model/Insns.v           (compile_insn over the regenerated opcode table)
     data           Model/Directives.v      (emit / announced over the regenerated size lambdas, get_as_int)
     .rad50         Model/Rad50.v
   No proofs here (Proofs/AsmP.v, Props/R.v).

   Passes (compiler.py compile_block / compile_include / compile_and_link_files, metacommands.py repeat / link /
   include / extern):
     0  cut_end       statements after a file's top-level .end are not compiled
     a  collect_*     the `name = expr` definitions of every file with the file and local scope they sit in, every
                      label key, the exported names (`.extern a`, `a::`, `a ==`, `.extern all`); values are
                      computed on demand ([xeval]: a definition that needs itself is the error recursive-definition).
                      A name is looked up as a local label of the current scope, a label / definition of the current
                      file, then the symbol another file exports under that name (Symbol._resolve).
     -  find_base     the first top-level `.link e` / `. = e` of the program fixes the link base (default 0o1000);
                      e may use constants only (a base spelled through labels is outside the subset: Unsupported)
     b  lay_*         sequential running address.  Sized statements (instructions: 2 + 2 per extension word
                      by operand FORM; .byte/.word/.dword/word lists: the regenerated size lambdas) advance by
                      the announced size; the others (.blkb .blkw .even .odd .align .ascii .asciz .rad50 `. = e`
                      insert_file) by the length of what they emit, evaluated with the constants and the
                      labels ALREADY laid out -- a count that needs a later label is Unsupported, never a guess.
                      Local labels: a new scope after every ordinary label; inside a .repeat body no local
                      scope is visible and labels / definitions are errors (as in compile_block).  An included
                      file has its own names (file id), its own local scopes and stops at its own .end; a
                      `.link` / `. = e` inside it would set its own base (C02's D2): Unsupported.
     c  emit_item     every statement is evaluated again with the FINAL symbol table (Spec.Arith.eval) and
                      `.` = its own address (each repeat copy its own) and encoded.
     -  guard         the model withholds its result (Unsupported "size-guard") if some statement's final
                      length differs from the size its successors were laid out with.

   Results: XOk / XErr ids (the assembly fails with error diagnostics) / XCrash (a Python exception)
   / XOutOfFuel / XUnsup why (outside the modelled subset).  *)
From Coq Require Import ZArith List String Ascii Bool NArith.
From Verif Require Import Base.Res Base.Bytes Spec.PDP11 Spec.Arith Gen.GenGetAsInt Gen.GenOpcodes
  Model.Insns Model.Directives.
From Verif Require Spec.DataSpec Model.Rad50.
Import ListNotations.
Notation length := Datatypes.length.
Open Scope string_scope.
Open Scope list_scope.
Open Scope Z_scope.

(* ------------------------------------------------------------------------------------------ *)
(* results *)
Inductive xres (A : Type) : Type :=
| XOk (a : A) | XErr (ids : list string) | XCrash (site : string) | XOutOfFuel | XUnsup (why : string).
Arguments XOk {A} a.
Arguments XErr {A} ids.
Arguments XCrash {A} site.
Arguments XOutOfFuel {A}.
Arguments XUnsup {A} why.

Definition xbind {A B} (r : xres A) (f : A -> xres B) : xres B :=
  match r with
  | XOk a => f a | XErr e => XErr e | XCrash s => XCrash s | XOutOfFuel => XOutOfFuel | XUnsup w => XUnsup w
  end.
Notation "'xdo' x <- r ; k" := (xbind r (fun x => k)) (at level 200, x name, r at level 100, k at level 200).

Definition lift {A} (r : res A) : xres A :=
  match r with Ok a => XOk a | Err e => XErr e | Crash s => XCrash s | OutOfFuel => XOutOfFuel end.

Fixpoint xmapM {A B} (f : A -> xres B) (l : list A) : xres (list B) :=
  match l with
  | [] => XOk []
  | x :: xs => xdo y <- f x; xdo ys <- xmapM f xs; XOk (y :: ys)
  end.

(* what evaluating a directive's bytes amounts to for the whole assembly *)
Definition out_x (o : Directives.out) : xres (list Z) :=
  match o with
  | Out ds bs => match errors ds with [] => XOk bs | es => XErr (map snd es) end
  | Raised ds => XErr (map snd ds)
  | Crashed s => XCrash s
  end.

(* ------------------------------------------------------------------------------------------ *)
(* abstract syntax *)
Inductive aoperand : Type :=
| AReg (r : expr) | ARegDef (r : expr) | AAutoInc (r : expr) | AAutoIncDef (r : expr)
| AAutoDec (r : expr) | AAutoDecDef (r : expr)
| AIndex (x r : expr) | AIndexDef (x r : expr)
| AImm (v : expr) | AAbs (a : expr) | ARel (t : expr) | ARelDef (t : expr)
| AAcc (n : Z).   (* the token acN CLASSIFIED as an accumulator: written where the instruction expects a floating
                     operand or an accumulator (Spec.PDP11.token_acc, classes CFpRM / CAcc; there it shadows a symbol of
                     that name).  In every other position the token is the ordinary symbol acN, i.e. ARel (Sym "acN"):
                     tools/ast2coq.py decides by the stub class of the operand position, as insns.py does. *)

Inductive achunk : Type := CStr (s : list N) | CCode (e : expr).

Inductive stmt : Type :=
| Label (name : string)
| LocalLabel (name : string)
| Assign (name : string) (e : expr)
| Insn (m : string) (ops : list aoperand)
| Byte (es : list expr) | Word (es : list expr) | Dword (es : list expr)
| WordList (es : list expr)
| Blkb (e : expr) | Blkw (e : expr)
| Even | Odd | Align (e : expr)
| Ascii (z : bool) (cs : list achunk)
| Rad50 (cs : list achunk)
| Link (e : expr)
| Skip (e : expr)                       (* `. = e`: sets the base if it is not set yet, else skips forward *)
| Repeat (count : expr) (body : list stmt)
| Insert (bytes : list Z)
| NoOp                                  (* make_bin / make_raw / make_wav ...: no bytes *)
| End
| Include (own : bool) (fid : nat) (body : list stmt)
    (* the statements of another file with its own names, [fid] unique per inclusion.  own = true: .include (the file
       has its own link base); own = false: the next file given to the linker (compile_and_link_files): it shares the
       link base and may fix it *)
| Extern (names : list string)           (* .extern a, b   (and the `::` / `==` forms: definition + Extern) *)
| ExternAll.                             (* .extern all *)

Definition program := list stmt.

(* symbol table keys: the code's ".internalN." + name (N: the file) and ".localN." + name (N: file, scope) *)
Inductive key : Type := KGlobal (f : nat) (n : string) | KLocal (f sc : nat) (n : string).

Definition key_eqb (a b : key) : bool :=
  match a, b with
  | KGlobal f x, KGlobal g y => Nat.eqb f g && String.eqb x y
  | KLocal f i x, KLocal g j y => Nat.eqb f g && Nat.eqb i j && String.eqb x y
  | _, _ => false
  end.

(* where an expression is evaluated: the file, and the local-label scope (None inside a .repeat body) *)
Definition ctx : Type := (nat * option nat)%type.

Definition symtab := list (key * Z).

Fixpoint klookup (k : key) (t : symtab) : option Z :=
  match t with
  | [] => None
  | (k', v) :: r => if key_eqb k k' then Some v else klookup k r
  end.

Definition key_mem (k : key) (l : list key) : bool := existsb (key_eqb k) l.

Fixpoint slookup {V} (s : string) (t : list (string * V)) : option V :=
  match t with
  | [] => None
  | (k, v) :: r => if String.eqb s k then Some v else slookup s r
  end.

(* Symbol._resolve: local prefix + name, then internal prefix + name ... *)
Definition own_of (T : symtab) (c : ctx) (s : string) : option Z :=
  match (match snd c with Some k => klookup (KLocal (fst c) k s) T | None => None end) with
  | Some v => Some v
  | None => klookup (KGlobal (fst c) s) T
  end.

(* ... then the symbol another file exports under that name ([exports]: name -> exporting file) *)
Definition sym_of (exports : list (string * nat)) (T : symtab) (c : ctx) (s : string) : option Z :=
  match own_of T c s with
  | Some v => Some v
  | None => match slookup s exports with Some f => klookup (KGlobal f s) T | None => None end
  end.

(* ------------------------------------------------------------------------------------------ *)
(* pass 0 and pass a *)
Fixpoint cut_end (p : list stmt) : list stmt :=
  match p with
  | [] => []
  | End :: _ => []
  | s :: r => s :: cut_end r
  end.

Record defn : Type := mkDef { d_file : nat; d_name : string; d_scope : nat; d_expr : expr }.

(* top level of every file only: inside a .repeat body labels and definitions are errors.
   A file ends at its .end; an included file has its own names and its own local scopes. *)
Fixpoint defs_stmt (f sc : nat) (s : stmt) : list defn :=
  match s with
  | Assign n e => [mkDef f n sc e]
  | Include _ fid body =>
      (fix go (sc' : nat) (l : list stmt) : list defn :=
         match l with
         | [] => []
         | End :: _ => []
         | Label n :: r => go (S sc') r
         | x :: r => defs_stmt fid sc' x ++ go sc' r
         end) 0%nat body
  | _ => []
  end.
Fixpoint collect_defs (f sc : nat) (p : list stmt) : list defn :=
  match p with
  | [] => []
  | End :: _ => []
  | Label _ :: r => collect_defs f (S sc) r
  | x :: r => defs_stmt f sc x ++ collect_defs f sc r
  end.

Fixpoint keys_stmt (f sc : nat) (s : stmt) : list key :=
  match s with
  | LocalLabel n => [KLocal f sc n]
  | Include _ fid body =>
      (fix go (sc' : nat) (l : list stmt) : list key :=
         match l with
         | [] => []
         | End :: _ => []
         | Label n :: r => KGlobal fid n :: go (S sc') r
         | x :: r => keys_stmt fid sc' x ++ go sc' r
         end) 0%nat body
  | _ => []
  end.
Fixpoint collect_keys (f sc : nat) (p : list stmt) : list key :=
  match p with
  | [] => []
  | End :: _ => []
  | Label n :: r => KGlobal f n :: collect_keys f (S sc) r
  | x :: r => keys_stmt f sc x ++ collect_keys f sc r
  end.

(* .extern: explicitly exported names, and the files that export everything *)
Fixpoint exports_stmt (f : nat) (s : stmt) : list (string * nat) * list nat :=
  match s with
  | Extern ns => (map (fun n => (n, f)) ns, [])
  | ExternAll => ([], [f])
  | Include _ fid body =>
      (fix go (l : list stmt) : list (string * nat) * list nat :=
         match l with
         | [] => ([], [])
         | End :: _ => ([], [])
         | x :: r => let a := exports_stmt fid x in let b := go r in (fst a ++ fst b, snd a ++ snd b)
         end) body
  | _ => ([], [])
  end.
Fixpoint collect_exports (f : nat) (p : list stmt) : list (string * nat) * list nat :=
  match p with
  | [] => ([], [])
  | End :: _ => ([], [])
  | x :: r => let a := exports_stmt f x in let b := collect_exports f r in (fst a ++ fst b, snd a ++ snd b)
  end.

Fixpoint file_ids_stmt (s : stmt) : list nat :=
  match s with
  | Include _ fid body => fid :: (fix go (l : list stmt) : list nat :=
                                  match l with [] => [] | End :: _ => [] | x :: r => file_ids_stmt x ++ go r end) body
  | Repeat _ body => (fix go (l : list stmt) : list nat :=
                        match l with [] => [] | x :: r => file_ids_stmt x ++ go r end) body
  | _ => []
  end.
Definition file_ids (p : list stmt) : list nat := flat_map file_ids_stmt p.

Fixpoint nodup_nat (l : list nat) : bool :=
  match l with [] => true | x :: r => negb (existsb (Nat.eqb x) r) && nodup_nat r end.
Fixpoint nodup_str (l : list string) : bool :=
  match l with [] => true | x :: r => negb (existsb (String.eqb x) r) && nodup_str r end.

(* every name a file exports: the explicit ones, and every label / definition of an `.extern all` file *)
Definition all_exports (defs : list defn) (keys : list key) (ex : list (string * nat) * list nat) : list (string * nat) :=
  fst ex ++
  flat_map (fun f =>
              flat_map (fun k => match k with KGlobal g n => if Nat.eqb f g then [(n, f)] else [] | _ => [] end) keys ++
              flat_map (fun d => if Nat.eqb f (d_file d) then [(d_name d, f)] else []) defs) (snd ex).

Fixpoint find_def (f : nat) (s : string) (l : list defn) : option defn :=
  match l with
  | [] => None
  | d :: r => if Nat.eqb f (d_file d) && String.eqb s (d_name d) then Some d else find_def f s r
  end.

(* the definitions being evaluated right now (Awaiting) *)
Definition vmem (f : nat) (s : string) (vis : list (nat * string)) : bool :=
  existsb (fun p => Nat.eqb f (fst p) && String.eqb s (snd p)) vis.

(* the first statement that can fix the link base, with the file it stands in: at the top level of the program
   file or of a file linked after it (an included file has a base of its own) *)
Fixpoint base_stmt (f : nat) (s : stmt) : option (nat * expr) :=
  match s with
  | Link e | Skip e => Some (f, e)
  | Include false fid body =>
      (fix go (l : list stmt) : option (nat * expr) :=
         match l with
         | [] => None
         | End :: _ => None
         | x :: r => match base_stmt fid x with Some b => Some b | None => go r end
         end) body
  | _ => None
  end.
Fixpoint first_base (f : nat) (p : list stmt) : option (nat * expr) :=
  match p with
  | [] => None
  | x :: r => match base_stmt f x with Some b => Some b | None => first_base f r end
  end.

Definition default_base : Z := 512.     (* 0o1000 *)

(* little-endian bytes of the instruction words *)
Definition words_bytes (ws : list Z) : list Z := flat_map (fun w => [w mod 256; (w / 256) mod 256]) ws.

Definition zlen {A} (l : list A) : Z := Z.of_nat (length l).

Record item : Type := mkItem { i_addr : Z; i_scope : ctx; i_stmt : stmt; i_size : Z }.

Record lstate : Type := mkL {
  l_addr : Z;                       (* running address *)
  l_file : nat;                     (* the file being compiled (0: the program itself) *)
  l_scope : nat;                    (* current local-label scope of that file's top level *)
  l_labels : symtab;                (* labels laid out so far *)
  l_ddots : symtab;                 (* address of every definition statement laid out so far *)
  l_based : bool;                   (* the link base has been fixed by a statement already *)
  l_inc : bool                      (* inside an included file (its link base is its own, still unknown) *)
}.

Section Asm.
(* the output charset: bytes of a string, None = UnicodeEncodeError *)
Variable enc : list N -> option (list Z).

(* one character, for character literals (Spec.Arith's view of the codec) *)
Definition cenc (c : N) : option (list N) :=
  match enc [c] with Some bs => Some (map Z.to_N bs) | None => None end.

(* ------------------------------------------------------------------------------------------ *)
(* demand-driven evaluation: labels known so far, definitions unfolded on demand.
   [vis]: the definitions being evaluated right now (Awaiting); fuel > number of definitions suffices. *)
Section Eval.
Variable alldefs : list defn.
Variable allkeys : list key.
Variable exports : list (string * nat).
Variable labels : symtab.
Variable ddots : symtab.

Fixpoint xeval (fuel : nat) (vis : list (nat * string)) (c : ctx) (dot : option Z) (e : expr) {struct fuel} : xres Z :=
  (fix go (e : expr) : xres Z :=
     match e with
     | Lit l => lift (lit_value cenc l)
     | Sym s =>
         (* the value of a definition of file f *)
         let unfold_def (f : nat) (k : xres Z) : xres Z :=
           match find_def f s alldefs with
           | Some d =>
               if vmem f s vis then XErr ["recursive-definition"]
               else match fuel with
                    | O => XOutOfFuel
                    | S fl => xeval fl ((f, s) :: vis) (f, Some (d_scope d)) (klookup (KGlobal f s) ddots) (d_expr d)
                    end
           | None => k
           end in
         match own_of labels c s with
         | Some v => XOk v
         | None =>
             unfold_def (fst c)
               (if key_mem (KGlobal (fst c) s) allkeys
                   || match snd c with Some k => key_mem (KLocal (fst c) k s) allkeys | None => false end
                then XUnsup "label-not-laid-out-yet"
                else match slookup s exports with
                     | Some f =>
                         match klookup (KGlobal f s) labels with
                         | Some v => XOk v
                         | None =>
                             unfold_def f
                               (if key_mem (KGlobal f s) allkeys then XUnsup "label-not-laid-out-yet"
                                else XErr ["undefined-symbol"])
                         end
                     | None => XErr ["undefined-symbol"]
                     end)
         end
     | Dot => match dot with Some a => XOk a | None => XUnsup "dot-of-a-later-definition" end
     | Un u x => xdo a <- go x; lift (sem_un u a)
     | Bin o l r => xdo a <- go l; xdo b <- go r; lift (sem_bin o a b)
     | Group _ x => go x
     end) e.
End Eval.

(* evaluation with a complete symbol table: the Spec's eval *)
Definition fev (exports : list (string * nat)) (T : symtab) (c : ctx) (addr : Z) (e : expr) : xres Z :=
  lift (Arith.eval cenc (sym_of exports T c) addr e).

(* ------------------------------------------------------------------------------------------ *)
(* one statement's bytes, given how to evaluate its expressions and its address *)
Definition eval_opnd (ev : expr -> xres Z) (o : aoperand) : xres operand :=
  match o with
  | AReg r => xdo v <- ev r; XOk (OReg v)
  | ARegDef r => xdo v <- ev r; XOk (ORegDef v)
  | AAutoInc r => xdo v <- ev r; XOk (OAutoInc v)
  | AAutoIncDef r => xdo v <- ev r; XOk (OAutoIncDef v)
  | AAutoDec r => xdo v <- ev r; XOk (OAutoDec v)
  | AAutoDecDef r => xdo v <- ev r; XOk (OAutoDecDef v)
  | AIndex x r => xdo a <- ev x; xdo v <- ev r; XOk (OIndex a v)
  | AIndexDef x r => xdo a <- ev x; xdo v <- ev r; XOk (OIndexDef a v)
  | AImm x => xdo v <- ev x; XOk (OImm v)
  | AAbs x => xdo v <- ev x; XOk (OAbs v)
  | ARel x => xdo v <- ev x; XOk (ORel v)
  | ARelDef x => xdo v <- ev x; XOk (ORelDef v)
  | AAcc n => XOk (OAcc n)
  end.

Definition eval_chunk (ev : expr -> xres Z) (c : achunk) : xres DataSpec.chunk :=
  match c with
  | CStr s => XOk (DataSpec.Str s)
  | CCode e => xdo v <- ev e; XOk (DataSpec.Code v)
  end.

Definition eval_rchunk (ev : expr -> xres Z) (c : achunk) : xres Rad50.chunk :=
  match c with
  | CStr s => XOk (Rad50.Str s)
  | CCode e => xdo v <- ev e; XOk (Rad50.Code v)
  end.

Definition plain (vs : list Z) : list (bool * Z) := map (pair false) vs.

Definition emit_leaf (ev : expr -> xres Z) (addr : Z) (s : stmt) : xres (list Z) :=
  match s with
  | Insn m ops =>
      xdo os <- xmapM (eval_opnd ev) ops;
      xdo ws <- lift (compile_insn m os addr);
      XOk (words_bytes ws)
  | Byte es => xdo vs <- xmapM ev es; out_x (emit enc (DMeta ".byte" (plain vs)) addr)
  | Word es => xdo vs <- xmapM ev es; out_x (emit enc (DMeta ".word" (plain vs)) addr)
  | Dword es => xdo vs <- xmapM ev es; out_x (emit enc (DMeta ".dword" (plain vs)) addr)
  | WordList es => xdo vs <- xmapM ev es; out_x (emit enc (DWordList vs) addr)
  | Blkb e => xdo v <- ev e; out_x (emit enc (DMeta ".blkb" [(false, v)]) addr)
  | Blkw e => xdo v <- ev e; out_x (emit enc (DMeta ".blkw" [(false, v)]) addr)
  | Even => out_x (emit enc (DMeta ".even" []) addr)
  | Odd => out_x (emit enc (DMeta ".odd" []) addr)
  | Align e => xdo v <- ev e; out_x (emit enc (DMeta ".align" [(false, v)]) addr)
  | Ascii z cs => xdo ch <- xmapM (eval_chunk ev) cs; out_x (emit enc (DAscii z [ch]) addr)
  | Rad50 cs => xdo ch <- xmapM (eval_rchunk ev) cs; lift (Rad50.rad50_ascii ch)
  | Skip e =>
      (* compile_block's closure: get_as_int(bitness=16, unsigned=False), then the distance *)
      xdo v <- ev e;
      xdo nw <- lift (get_as_int (Some 16) false None v);
      if nw - addr <? 0 then XErr ["value-out-of-bounds"] else XOk (zeros (Z.to_nat (nw - addr)))
  | Insert bs => XOk bs
  | _ => XOk []
  end.

(* ------------------------------------------------------------------------------------------ *)
(* sizes committed before the values are known *)
Definition ext_form (o : aoperand) : nat :=
  match o with
  | AIndex _ _ | AIndexDef _ _ | AImm _ | AAbs _ | ARel _ | ARelDef _ => 1
  | _ => 0
  end%nat.

Definition ext_of_a (st : stub) (o : aoperand) : nat :=
  match sk st with
  | SkRegMode => ext_form o
  | SkFpRM => match o with AAcc _ | AReg _ => 0%nat | _ => ext_form o end
  | _ => 0%nat
  end.

Fixpoint ext_total_a (sts : list stub) (ops : list aoperand) : nat :=
  match sts, ops with
  | st :: sts', o :: ops' => (ext_of_a st o + ext_total_a sts' ops')%nat
  | _, _ => 0%nat
  end.

Definition insn_size (m : string) (ops : list aoperand) : xres Z :=
  match lookup_pat m opcode_table with
  | None => XErr ["unknown-insn"]
  | Some pat =>
      xdo i <- lift (init_entry pat);
      if negb (Nat.eqb (length ops) (length (stubs i))) then XErr ["wrong-operands"]
      else XOk (2 + 2 * Z.of_nat (ext_total_a (stubs i) ops))
  end.

(* the regenerated size lambda of a data directive with n operands *)
Definition data_size (d : directive) : xres Z :=
  match announced d with Some n => XOk n | None => XCrash "no announced size" end.

Definition sized_size (s : stmt) : option (xres Z) :=
  match s with
  | Insn m ops => Some (insn_size m ops)
  | Byte es => Some (data_size (DMeta ".byte" (plain (map (fun _ => 0) es))))
  | Word es => Some (data_size (DMeta ".word" (plain (map (fun _ => 0) es))))
  | Dword es => Some (data_size (DMeta ".dword" (plain (map (fun _ => 0) es))))
  | WordList es => Some (data_size (DWordList (map (fun _ => 0) es)))
  | _ => None
  end.

(* ------------------------------------------------------------------------------------------ *)
(* pass b *)
Section Layout.
Variable alldefs : list defn.
Variable allkeys : list key.
Variable exports : list (string * nat).
Variable fuel : nat.

Definition lev (st : lstate) (sc : ctx) (e : expr) : xres Z :=
  xeval alldefs allkeys exports (l_labels st) (l_ddots st) fuel [] sc (Some (l_addr st)) e.

(* a layout step: the new state and the statements it placed, in order *)
Definition lres : Type := xres (lstate * list item).

Definition put (st : lstate) (sc : ctx) (s : stmt) (sz : Z) : lstate * list item :=
  (mkL (l_addr st + sz) (l_file st) (l_scope st) (l_labels st) (l_ddots st) (l_based st) (l_inc st),
   [mkItem (l_addr st) sc s sz]).

Definition kmem (k : key) (t : symtab) : bool := existsb (fun p => key_eqb k (fst p)) t.

Definition no_def_here : lres := XErr ["unexpected-symbol-definition"].

Definition lay_leaf (inrep : bool) (s : stmt) (st : lstate) : lres :=
  let f := l_file st in
  let sc : ctx := (f, if inrep then None else Some (l_scope st)) in
  let a := l_addr st in
  match s with
  | Label n =>
      if inrep then no_def_here
      else if kmem (KGlobal f n) (l_labels st) || kmem (KGlobal f n) (l_ddots st) then XErr ["duplicate-symbol"]
      else XOk (mkL a f (S (l_scope st)) ((KGlobal f n, a) :: l_labels st) (l_ddots st) (l_based st) (l_inc st),
                [mkItem a sc s 0])
  | LocalLabel n =>
      if inrep then no_def_here
      else if kmem (KLocal f (l_scope st) n) (l_labels st) then XErr ["duplicate-symbol"]
      else XOk (mkL a f (l_scope st) ((KLocal f (l_scope st) n, a) :: l_labels st) (l_ddots st) (l_based st) (l_inc st),
                [mkItem a sc s 0])
  | Assign n e =>
      if inrep then no_def_here
      else if kmem (KGlobal f n) (l_labels st) || kmem (KGlobal f n) (l_ddots st) then XErr ["duplicate-symbol"]
      else XOk (mkL a f (l_scope st) (l_labels st) ((KGlobal f n, a) :: l_ddots st) (l_based st) (l_inc st),
                [mkItem a sc s 0])
  | Link e =>
      if inrep then XUnsup "link-inside-repeat"
      else if l_inc st then XUnsup "own-base-in-include"
      else if l_based st then XErr ["address-conflict"]
      else XOk (mkL a f (l_scope st) (l_labels st) (l_ddots st) true (l_inc st), [mkItem a sc s 0])
  | Skip e =>
      if l_inc st then XUnsup "own-base-in-include"
      else if l_based st then
        xdo bs <- emit_leaf (lev st sc) a s; XOk (put st sc s (zlen bs))
      else if inrep then XUnsup "base-set-inside-repeat"
      else XOk (mkL a f (l_scope st) (l_labels st) (l_ddots st) true (l_inc st), [mkItem a sc (Link e) 0])
  | Repeat _ _ => XUnsup "internal: repeat as leaf"
  | Include _ _ _ => XUnsup "internal: include as leaf"
  | End => XUnsup "end-inside-block"
  | Extern _ | ExternAll => if inrep then XUnsup "extern-inside-repeat" else XOk (put st sc s 0)
  | _ =>
      match sized_size s with
      | Some r => xdo sz <- r; XOk (put st sc s sz)
      | None => xdo bs <- emit_leaf (lev st sc) a s; XOk (put st sc s (zlen bs))
      end
  end.

Fixpoint iter_x (n : nat) (f : lstate -> lres) (st : lstate) : lres :=
  match n with
  | O => XOk (st, [])
  | S k => xdo r <- f st; xdo r' <- iter_x k f (fst r); XOk (fst r', snd r ++ snd r')
  end.

Fixpoint lay_stmt (inrep : bool) (s : stmt) (st : lstate) {struct s} : lres :=
  match s with
  | Repeat ce body =>
      let sc : ctx := (l_file st, if inrep then None else Some (l_scope st)) in
      xdo n <- lev st sc ce;
      (* repetitions_count: uint -- get_as_int(bitness=None, unsigned=True) *)
      xdo n' <- lift (get_as_int None true None n);
      (* metacommands.MAX_REPETITIONS: the repetitions of one compilation are counted and more than 2^16 of them are
         an error; one .repeat beyond that is modelled here, the sum over several is not *)
      if 65536 <? n' then XErr ["value-out-of-bounds"] else
      iter_x (Z.to_nat n')
        (fun st0 =>
           (fix lay_body (l : list stmt) (st1 : lstate) : lres :=
              match l with
              | [] => XOk (st1, [])
              | x :: r => xdo a <- lay_stmt true x st1; xdo b <- lay_body r (fst a); XOk (fst b, snd a ++ snd b)
              end) body st0) st
  | Include own fid body =>
      if inrep then XUnsup "include-inside-repeat"
      else
        (* compile_include / the next linked file: the file's own names (fid), its own local scopes, for .include its
           own (unknown) link base; it stops at its .end; afterwards the including file goes on where it was *)
        xdo r <- (fix lay_file (l : list stmt) (st1 : lstate) : lres :=
                    match l with
                    | [] => XOk (st1, [])
                    | End :: _ => XOk (st1, [])
                    | x :: r => xdo a <- lay_stmt false x st1; xdo b <- lay_file r (fst a); XOk (fst b, snd a ++ snd b)
                    end) body
                 (mkL (l_addr st) fid 0 (l_labels st) (l_ddots st) (l_based st) (own || l_inc st));
        let st' := fst r in
        XOk (mkL (l_addr st') (l_file st) (l_scope st) (l_labels st') (l_ddots st') (l_based st') (l_inc st), snd r)
  | _ => lay_leaf inrep s st
  end.

Fixpoint lay_list (inrep : bool) (l : list stmt) (st : lstate) : lres :=
  match l with
  | [] => XOk (st, [])
  | x :: r => xdo a <- lay_stmt inrep x st; xdo b <- lay_list inrep r (fst a); XOk (fst b, snd a ++ snd b)
  end.

(* the link base: constants only *)
Definition find_base (q : list stmt) : xres Z :=
  match first_base 0 q with
  | None => XOk default_base
  | Some (f, e) =>
      xdo v <- xeval alldefs allkeys exports [] [] fuel [] (f, None) None e;
      lift (get_as_int (Some 16) false None v)
  end.

(* values of the definitions once everything is laid out *)
Definition def_values (labels : symtab) (ddots : symtab) : xres symtab :=
  xmapM (fun d =>
           xdo v <- xeval alldefs allkeys exports labels ddots fuel [(d_file d, d_name d)]
                          (d_file d, Some (d_scope d)) (klookup (KGlobal (d_file d) (d_name d)) ddots) (d_expr d);
           XOk (KGlobal (d_file d) (d_name d), v)) alldefs.
End Layout.

(* pass c *)
Definition emit_item (exports : list (string * nat)) (T : symtab) (it : item) : xres (list Z) :=
  emit_leaf (fev exports T (i_scope it) (i_addr it)) (i_addr it) (i_stmt it).

Definition size_ok (p : item * list Z) : bool := i_size (fst p) =? zlen (snd p).

Record full : Type := mkFull { f_base : Z; f_items : list item; f_chunks : list (list Z); f_syms : symtab;
                               f_exports : list (string * nat) }.

Definition assemble_full (p : program) : xres full :=
  let q := cut_end p in
  let alldefs := collect_defs 0 0 q in
  let allkeys := collect_keys 0 0 q in
  let exports := all_exports alldefs allkeys (collect_exports 0 q) in
  let fuel := S (length alldefs) in
  if negb (nodup_nat (0%nat :: file_ids q)) then XUnsup "file-ids"
  else if negb (nodup_str (map fst exports)) then XErr ["duplicate-symbol"]
  else
  xdo base <- find_base alldefs allkeys exports fuel q;
  xdo r <- lay_list alldefs allkeys exports fuel false q (mkL base 0 0 [] [] false false);
  let st := fst r in
  let items := snd r in
  xdo dv <- def_values alldefs allkeys exports fuel (l_labels st) (l_ddots st);
  let T := l_labels st ++ dv in
  xdo chunks <- xmapM (emit_item exports T) items;
  if forallb size_ok (combine items chunks) then XOk (mkFull base items chunks T exports)
  else XUnsup "size-guard".

Definition assemble (p : program) : xres (Z * list Z * symtab) :=
  xdo f <- assemble_full p; XOk (f_base f, List.concat (f_chunks f), f_syms f).

End Asm.
