(* Hand model of pdpy11/formats.py (bin_, raw) and of the pieces it shares with bk_wav.py:
   struct.pack for the format strings that occur, the while-loop of checksum(), and the
   evaluation of the struct.pack arguments listed in Gen/GenBkWav.v.  No proofs here. *)
From Coq Require Import String Ascii List ZArith NArith Bool.
From Verif Require Import Base.Res Gen.GenBkWav.
Import ListNotations.
Open Scope list_scope.
Open Scope Z_scope.

(* ------------------------------------------------------------------ struct.pack *)
Inductive pval := VInt (z : Z) | VBytes (bs : list Z).

(* one item of a format string: H = uint16, I = uint32, B = uint8, FS n = "<n>s" *)
Inductive fcode := FB | FH | FI | FS (n : nat).

Definition digit_of (c : ascii) : option nat :=
  let n := nat_of_ascii c in
  if (Nat.leb 48 n && Nat.leb n 57)%bool then Some (n - 48)%nat else None.

Definition rep_code (count : option nat) (c : fcode) : list fcode :=
  match count with None => [c] | Some k => repeat c k end.

(* items after the byte-order character; [count] = the decimal prefix read so far *)
Fixpoint parse_items (s : string) (count : option nat) : option (list fcode) :=
  match s with
  | EmptyString => match count with None => Some [] | Some _ => None end
  | String c r =>
      match digit_of c with
      | Some d => parse_items r (Some (10 * match count with Some k => k | None => 0 end + d)%nat)
      | None =>
          let rest := parse_items r None in
          if Ascii.eqb c "s" then option_map (cons (FS match count with Some k => k | None => 1%nat end)) rest
          else if Ascii.eqb c "H" then option_map (app (rep_code count FH)) rest
          else if Ascii.eqb c "I" then option_map (app (rep_code count FI)) rest
          else if Ascii.eqb c "B" then option_map (app (rep_code count FB)) rest
          else None
      end
  end.

(* (big-endian?, items); only the explicit byte orders "<" and ">" are modelled *)
Definition compile_fmt (s : string) : option (bool * list fcode) :=
  match s with
  | String c r =>
      if Ascii.eqb c "<" then option_map (pair false) (parse_items r None)
      else if Ascii.eqb c ">" then option_map (pair true) (parse_items r None)
      else None
  | EmptyString => None
  end.

Fixpoint le_bytes (n : nat) (v : Z) : list Z :=
  match n with
  | O => []
  | S k => v mod 256 :: le_bytes k (v / 256)
  end.

(* an unsigned field of n bytes: struct.error outside 0 .. 256^n - 1 *)
Definition pack_uint (big : bool) (n : nat) (v : Z) : res (list Z) :=
  if (0 <=? v) && (v <? 256 ^ Z.of_nat n)
  then Ok (if big then rev (le_bytes n v) else le_bytes n v)
  else Crash "struct.error".

(* "<n>s": truncated or padded with NUL bytes to n *)
Fixpoint fit (n : nat) (bs : list Z) : list Z :=
  match n with
  | O => []
  | S k => match bs with
           | [] => 0 :: fit k []
           | b :: r => b :: fit k r
           end
  end.

Fixpoint pack_codes (big : bool) (cs : list fcode) (vs : list pval) : res (list Z) :=
  match cs, vs with
  | [], [] => Ok []
  | FS n :: cs', VBytes b :: vs' => do r <- pack_codes big cs' vs'; Ok (fit n b ++ r)
  | FB :: cs', VInt v :: vs' => do x <- pack_uint big 1 v; do r <- pack_codes big cs' vs'; Ok (x ++ r)
  | FH :: cs', VInt v :: vs' => do x <- pack_uint big 2 v; do r <- pack_codes big cs' vs'; Ok (x ++ r)
  | FI :: cs', VInt v :: vs' => do x <- pack_uint big 4 v; do r <- pack_codes big cs' vs'; Ok (x ++ r)
  | _, _ => Crash "struct.error"      (* wrong number or type of arguments *)
  end.

Definition pack_fmt (fmt : string) (vs : list pval) : res (list Z) :=
  match compile_fmt fmt with
  | Some (big, cs) => pack_codes big cs vs
  | None => Crash "struct.error"
  end.

(* ------------------------------------------------------------------ checksum() *)
Fixpoint while_loop (fuel : nat) (cond : Z -> bool) (step : Z -> Z) (x : Z) : res Z :=
  if cond x then
    match fuel with
    | O => OutOfFuel
    | S k => while_loop k cond step (step x)
    end
  else Ok x.

(* enough for the loop as it stands (proved in Proofs/C13Checksum.v) *)
Definition checksum_fuel (init : Z) : nat := S (Z.to_nat (init / 65535)).

Definition checksum (code : list Z) : res Z :=
  let init := checksum_init code in
  while_loop (checksum_fuel init) checksum_cond checksum_step init.

(* ------------------------------------------------------------------ struct.pack arguments *)
Definition bytes_of_string (s : string) : list Z :=
  map (fun c => Z.of_N (N_of_ascii c)) (list_ascii_of_string s).

(* the names in scope at the struct.pack call; None = not in scope there *)
Record scope := {
  sc_base : option Z;
  sc_code : option (list Z);
  sc_name : option (list Z);
  sc_rate : option Z;
  sc_data_len : option Z }.

Definition in_scope {A} (o : option A) (f : A -> res pval) : res pval :=
  match o with Some a => f a | None => Crash "NameError" end.

Definition eval_parg (sc : scope) (a : parg) : res pval :=
  match a with
  | ABase => in_scope (sc_base sc) (fun b => Ok (VInt b))
  | ALenCode => in_scope (sc_code sc) (fun c => Ok (VInt (Z.of_nat (length c))))
  | AName => in_scope (sc_name sc) (fun n => Ok (VBytes n))
  | AChecksum => in_scope (sc_code sc) (fun c => do k <- checksum c; Ok (VInt k))
  | ARate => in_scope (sc_rate sc) (fun r => Ok (VInt r))
  | AConst z => Ok (VInt z)
  | ABytes s => Ok (VBytes (bytes_of_string s))
  | ALenDataPlus k => in_scope (sc_data_len sc) (fun n => Ok (VInt (k + n)))
  end.

Definition pack_args (sc : scope) (fmt : string) (args : list parg) : res (list Z) :=
  do vs <- mapM (eval_parg sc) args; pack_fmt fmt vs.

(* ------------------------------------------------------------------ formats.py *)
Definition image_scope (base : Z) (code : list Z) (name : option (list Z)) : scope :=
  {| sc_base := Some base; sc_code := Some code; sc_name := name; sc_rate := None; sc_data_len := None |}.

(* raw(_base, code) *)
Definition fmt_raw (base : Z) (code : list Z) : res (list Z) := Ok code.

(* bin_(base, code): struct.pack(bin_fmt, *bin_args) + code *)
Definition fmt_bin (base : Z) (code : list Z) : res (list Z) :=
  do h <- pack_args (image_scope base code None) bin_fmt bin_args; Ok (h ++ code).
