(* C11 -- the code's scoping mechanism (M_scope), run over the trace of Spec/Scope.v.  No proofs here.

   Mirrors compiler.py: Compiler.next_local_symbol_prefix / next_internal_symbol_prefix, compile_file (a fresh
   ".internal{k}." per compiled file instance), compile_block (a fresh ".local{k}." per block and after every
   ordinary label, also a rejected duplicate one; definitions inside a '.repeat' body are errors and skipped),
   compile_label / compile_assignment (mangled key in one case-insensitive table, duplicate detection,
   internal_symbols_list, export on '::' / '==' and once more when the block's state has extern_all),
   declare_external_symbol (first export stands, second is an error), metacommands.extern ('.extern all':
   retroactive over internal_symbols_list, then the flag in the *current block's* state), and
   types.Symbol._resolve: candidates local key, own-file key -- tried when the use site is met and, if neither
   exists yet, again at the end followed by the extern mapping, else 'undefined-symbol'.

   Table keys are modelled as (kind, counter, lower-cased name); [render] is the string the code builds, and
   Proofs/ScopeP.v shows that equality of lower-cased rendered strings is equality of model keys. *)
From Coq Require Import String Ascii List ZArith NArith Bool DecimalString.
From Verif Require Import Base.Res Spec.Scope.
Import ListNotations.
Open Scope Z_scope.

Inductive kind := KLocal | KInternal.
Definition key := (kind * N * string)%type.

Definition kind_eqb (a b : kind) : bool :=
  match a, b with KLocal, KLocal | KInternal, KInternal => true | _, _ => false end.

Definition key_eqb (a b : key) : bool :=
  let '(k1, n1, s1) := a in let '(k2, n2, s2) := b in
  kind_eqb k1 k2 && N.eqb n1 n2 && String.eqb s1 s2.

Definition decimal (n : N) : string := NilEmpty.string_of_uint (N.to_uint n).

Definition prefix_of (k : kind) : string :=
  match k with KLocal => ".local" | KInternal => ".internal" end.

(* f".local{k}." + name   /   f".internal{k}." + name *)
Definition render (k : kind) (n : N) (name : string) : string :=
  (prefix_of k ++ decimal n ++ "." ++ name)%string.

Definition mkkey (k : kind) (n : N) (name : string) : key := (k, n, lower name).

Record frame := { f_isfile : bool; f_int : N; f_loc : N; f_xall : bool }.
Definition frame0 : frame := {| f_isfile := false; f_int := 0; f_loc := 0; f_xall := false |}.

Record entry := { e_key : key; e_orig : string; e_val : Z }.

Record st := {
  next_loc : N;
  next_int : N;
  syms : list entry;                       (* Compiler.symbols, insertion order *)
  exts : list (string * key);              (* extern_symbols_mapping: folded name -> key it points to *)
  isl : list (N * string);                 (* internal_symbols_list of every file instance: (prefix, name) *)
  errs : list string;
  outs : list (Z + (N * N * string));      (* per use site: value found at once, or (local, internal, name) *)
  stack : list frame
}.

Definition init : st :=
  {| next_loc := 1; next_int := 1; syms := []; exts := []; isl := []; errs := []; outs := []; stack := [] |}.

Definition topf (s : st) : frame := match stack s with f :: _ => f | [] => frame0 end.

Definition with_stack (s : st) (stk : list frame) : st :=
  {| next_loc := next_loc s; next_int := next_int s; syms := syms s; exts := exts s; isl := isl s;
     errs := errs s; outs := outs s; stack := stk |}.

Definition add_err (s : st) (e : string) : st :=
  {| next_loc := next_loc s; next_int := next_int s; syms := syms s; exts := exts s; isl := isl s;
     errs := errs s ++ [e]; outs := outs s; stack := stack s |}.

Definition add_sym (s : st) (en : entry) : st :=
  {| next_loc := next_loc s; next_int := next_int s; syms := syms s ++ [en]; exts := exts s; isl := isl s;
     errs := errs s; outs := outs s; stack := stack s |}.

Definition add_isl (s : st) (int : N) (name : string) : st :=
  {| next_loc := next_loc s; next_int := next_int s; syms := syms s; exts := exts s; isl := isl s ++ [(int, name)];
     errs := errs s; outs := outs s; stack := stack s |}.

Definition add_out (s : st) (o : Z + (N * N * string)) : st :=
  {| next_loc := next_loc s; next_int := next_int s; syms := syms s; exts := exts s; isl := isl s;
     errs := errs s; outs := outs s ++ [o]; stack := stack s |}.

Definition lookup_key (k : key) (T : list entry) : option Z :=
  match find (fun en => key_eqb (e_key en) k) T with Some en => Some (e_val en) | None => None end.

Definition lookup_ext (ln : string) (X : list (string * key)) : option key :=
  match find (fun p => String.eqb (fst p) ln) X with Some p => Some (snd p) | None => None end.

(* declare_external_symbol(location, name, state) *)
Definition declare (int : N) (s : st) (name : string) : st :=
  let ln := lower name in
  match lookup_ext ln (exts s) with
  | Some _ => add_err s E_DUP
  | None =>
      {| next_loc := next_loc s; next_int := next_int s; syms := syms s;
         exts := exts s ++ [(ln, mkkey KInternal int name)]; isl := isl s;
         errs := errs s; outs := outs s; stack := stack s |}
  end.

(* a fresh local prefix for the current block (after an ordinary label) *)
Definition bump_local (s : st) : st :=
  match stack s with
  | [] => s
  | t :: r =>
      {| next_loc := next_loc s + 1; next_int := next_int s; syms := syms s; exts := exts s; isl := isl s;
         errs := errs s; outs := outs s;
         stack := {| f_isfile := f_isfile t; f_int := f_int t; f_loc := next_loc s; f_xall := f_xall t |} :: r |}
  end.

Definition set_xall (s : st) : st :=
  match stack s with
  | [] => s
  | t :: r => with_stack s ({| f_isfile := f_isfile t; f_int := f_int t; f_loc := f_loc t; f_xall := true |} :: r)
  end.

Definition step (s : st) (e : ev) : st :=
  let t := topf s in
  match e with
  | EFile =>
      {| next_loc := next_loc s + 1; next_int := next_int s + 1; syms := syms s; exts := exts s; isl := isl s;
         errs := errs s; outs := outs s;
         stack := {| f_isfile := true; f_int := next_int s; f_loc := next_loc s; f_xall := false |} :: stack s |}
  | EBlock =>
      {| next_loc := next_loc s + 1; next_int := next_int s; syms := syms s; exts := exts s; isl := isl s;
         errs := errs s; outs := outs s;
         stack := {| f_isfile := false; f_int := f_int t; f_loc := next_loc s; f_xall := f_xall t |} :: stack s |}
  | EEndFile | EEndBlock => with_stack s (tl (stack s))
  | ELabel n x v =>
      if negb (f_isfile t) then add_err s E_UNEXPECTED
      else
        let k := mkkey KInternal (f_int t) n in
        let s1 :=
          match lookup_key k (syms s) with
          | Some _ => add_err s E_DUP
          | None =>
              let s2 := add_sym s {| e_key := k; e_orig := render KInternal (f_int t) n; e_val := v |} in
              let s3 := if x then declare (f_int t) s2 n else s2 in
              let s4 := add_isl s3 (f_int t) n in
              if f_xall t then declare (f_int t) s4 n else s4
          end in
        bump_local s1
  | ELocal n v =>
      if negb (f_isfile t) then add_err s E_UNEXPECTED
      else
        let k := mkkey KLocal (f_loc t) n in
        match lookup_key k (syms s) with
        | Some _ => add_err s E_DUP
        | None => add_sym s {| e_key := k; e_orig := render KLocal (f_loc t) n; e_val := v |}
        end
  | EAssign n x v =>
      if negb (f_isfile t) then add_err s E_UNEXPECTED
      else
        let k := mkkey KInternal (f_int t) n in
        match lookup_key k (syms s) with
        | Some _ => add_err s E_DUP
        | None =>
            let s2 := add_isl s (f_int t) n in
            let s3 := add_sym s2 {| e_key := k; e_orig := render KInternal (f_int t) n; e_val := v |} in
            let s4 := if x then declare (f_int t) s3 n else s3 in
            if f_xall t then declare (f_int t) s4 n else s4
        end
  | ERef n =>
      match lookup_key (mkkey KLocal (f_loc t) n) (syms s) with
      | Some v => add_out s (inl v)
      | None =>
          match lookup_key (mkkey KInternal (f_int t) n) (syms s) with
          | Some v => add_out s (inl v)
          | None => add_out s (inr (f_loc t, f_int t, lower n))
          end
      end
  | EExtern ns => fold_left (declare (f_int t)) ns s
  | EExternAll =>
      let mine := map snd (filter (fun p => N.eqb (fst p) (f_int t)) (isl s)) in
      set_xall (fold_left (declare (f_int t)) mine s)
  end.

Definition walk (tr : list ev) : st := fold_left step tr init.

(* Symbol._resolve at the end: local key, own-file key, extern mapping *)
Definition resolve_final (s : st) (loc int : N) (ln : string) : option Z :=
  match lookup_key (KLocal, loc, ln) (syms s) with
  | Some v => Some v
  | None =>
      match lookup_key (KInternal, int, ln) (syms s) with
      | Some v => Some v
      | None =>
          match lookup_ext ln (exts s) with
          | Some k => lookup_key k (syms s)
          | None => None
          end
      end
  end.

Definition force (s : st) (o : Z + (N * N * string)) : option Z :=
  match o with
  | inl v => Some v
  | inr (loc, int, ln) => resolve_final s loc int ln
  end.

Definition has (e : string) (l : list string) : bool := existsb (String.eqb e) l.

Definition model_trace (tr : list ev) : outcome * list (string * Z) :=
  let s := walk tr in
  let vals := map (force s) (outs s) in
  let es := errs s ++ (if existsb (fun v => match v with None => true | Some _ => false end) vals then [E_UNDEFINED] else []) in
  let errs3 := (if has E_UNEXPECTED es then [E_UNEXPECTED] else []) ++ (if has E_DUP es then [E_DUP] else []) ++
               (if has E_UNDEFINED es then [E_UNDEFINED] else []) in
  (match errs3 with
   | [] => OutOk (map (fun v => match v with Some z => z | None => 0 end) vals)
   | _ => OutFail errs3
   end,
   map (fun en => (e_orig en, e_val en)) (syms s)).

Definition model_run (fuel : nat) (p : program) : res (outcome * list (string * Z)) :=
  do tr <- expand fuel p; Ok (model_trace tr).
