(* Model of the literal readers of pdpy11/parser.py and pdpy11/types.py (C05).  No proofs here.

   lex_number     parser.number() on the characters it matched (sign passed separately)
   char_value     types.CharLiteral.resolve
   rad50_literal  parser.radix50_literal + radix50.pack_to_int over the regenerated TABLE *)
From Coq Require Import String Ascii List ZArith NArith Bool.
From Verif Require Import Base.Res Gen.GenRadix50.
Import ListNotations.
Open Scope string_scope.
Open Scope N_scope.

(* ---- characters ---------------------------------------------------------------------------- *)
Definition code (c : ascii) : N := N_of_ascii c.
Definition is_decimal_digit (c : ascii) : bool := (48 <=? code c) && (code c <=? 57).
Definition is_lower_alpha (c : ascii) : bool := (97 <=? code c) && (code c <=? 122).
Definition is_upper_alpha (c : ascii) : bool := (65 <=? code c) && (code c <=? 90).
Definition is_alpha (c : ascii) : bool := is_lower_alpha c || is_upper_alpha c.
Definition lower (c : ascii) : ascii := if is_upper_alpha c then ascii_of_N (code c + 32) else c.
Definition upper (c : ascii) : ascii := if is_lower_alpha c then ascii_of_N (code c - 32) else c.

(* value of a digit character as Python's int(s, base) reads it: 0-9, then a-z / A-Z as 10.. *)
Definition digit_val (c : ascii) : option N :=
  if is_decimal_digit c then Some (code c - 48)
  else if is_lower_alpha c then Some (code c - 87)
  else if is_upper_alpha c then Some (code c - 55)
  else None.

Fixpoint str_forallb (p : ascii -> bool) (s : string) : bool :=
  match s with EmptyString => true | String c r => p c && str_forallb p r end.
Fixpoint str_existsb (p : ascii -> bool) (s : string) : bool :=
  match s with EmptyString => false | String c r => p c || str_existsb p r end.
Fixpoint str_last (s : string) : option ascii :=
  match s with
  | EmptyString => None
  | String c EmptyString => Some c
  | String _ r => str_last r
  end.
Fixpoint str_drop_last (s : string) : string :=
  match s with
  | EmptyString => EmptyString
  | String _ EmptyString => EmptyString
  | String c r => String c (str_drop_last r)
  end.
Definition is_char (a : ascii) (c : ascii) : bool := Ascii.eqb a c.

(* ---- int(s, base) on a string without sign, blanks or underscores -------------------------- *)
Fixpoint int_digits (base : N) (s : string) (acc : N) : option N :=
  match s with
  | EmptyString => Some acc
  | String c r =>
      match digit_val c with
      | Some d => if d <? base then int_digits base r (acc * base + d) else None
      | None => None
      end
  end.

(* Python accepts the prefix of the base itself once more: int("0x1f", 16) = 31 *)
Definition base_letter (base : N) : option ascii :=
  if base =? 16 then Some "x"%char else if base =? 8 then Some "o"%char
  else if base =? 2 then Some "b"%char else None.

Definition strip_base_prefix (base : N) (s : string) : string :=
  match s, base_letter base with
  | String z (String l r), Some bl =>
      if is_char z "0" && is_char (lower l) bl then r else s
  | _, _ => s
  end.

(* None = ValueError *)
Definition py_int (base : N) (s : string) : option N :=
  match strip_base_prefix base s with
  | EmptyString => None
  | s' => int_digits base s' 0
  end.

(* ---- number() ------------------------------------------------------------------------------ *)
Inductive lexnum :=
| LexNum (v : Z) (invalid_base8 reported : bool)
      (* types.Number with that value; invalid_base8: its use reports 'invalid-number';
         reported: 'invalid-number' was already reported while parsing *)
| LexLabel             (* RecoverableError "Local label, not a number": local_symbol_literal matched *)
| LexNoMatch           (* RecoverableError: not even a local symbol literal *)
| LexCrit (id : string).  (* reports.critical *)

Definition signed (neg : bool) (n : N) : Z := if neg then (- Z.of_N n)%Z else Z.of_N n.

(* [0-9a-f] etc. of the Macro-11 forms: the digit regexes *)
Definition caret_forms : list (ascii * N) :=
  [("x"%char, 16); ("o"%char, 8); ("b"%char, 2); ("d"%char, 10)].

Definition caret_base (l : ascii) : option N :=
  match find (fun p => is_char (lower l) (fst p)) caret_forms with
  | Some p => Some (snd p)
  | None => None
  end.

(* \d[a-z_0-9$.]*  (case-insensitive) *)
Definition local_symbol_char (c : ascii) : bool :=
  is_decimal_digit c || is_alpha c || is_char c "_" || is_char c "$" || is_char c ".".
Definition is_local_symbol_literal (s : string) : bool :=
  match s with
  | String c r => is_decimal_digit c && str_forallb local_symbol_char r
  | EmptyString => false
  end.

Definition valid_digit (base : N) (c : ascii) : bool :=
  match digit_val c with Some d => d <? base | None => false end.

(* BASES = {"x": 16, "o": 8, "b": 2} *)
Definition base_letter_inv (l : ascii) : option N :=
  if is_char l "x" then Some 16 else if is_char l "o" then Some 8 else if is_char l "b" then Some 2 else None.

(* the Macro-11 forms ^X ^O ^B ^D: [l] is the letter, [digits] what follows up to the next blank *)
Definition lex_caret (neg : bool) (l : ascii) (digits : string) : lexnum :=
  match caret_base l with
  | Some base =>
      (* <digit>+(?![$_.])\b on a blank-delimited token: every character must be a digit of the base *)
      match digits with
      | EmptyString => LexCrit "invalid-number"
      | _ => if str_forallb (valid_digit base) digits
             then match int_digits base digits 0 with
                  | Some n => LexNum (signed neg n) false false
                  | None => LexCrit "invalid-number"
                  end
             else LexCrit "invalid-number"
      end
  | None => LexNoMatch
  end.

(* everything else: first a local symbol literal, then decided by its characters *)
Definition lex_plain (neg : bool) (s : string) : lexnum :=
  if negb (is_local_symbol_literal s) then LexNoMatch else
  let has_dot := match str_last s with Some c => is_char c "." | None => false end in
  let num := if has_dot then str_drop_last s else s in
  if str_existsb (fun c => is_char c "$" || is_char c "_" || is_char c ".") num then LexLabel else
  if str_forallb is_decimal_digit num then
    match int_digits 10 num 0 with
    | None => LexLabel        (* unreachable: all characters are decimal digits *)
    | Some dec =>
        if has_dot then LexNum (signed neg dec) false false
        else if str_existsb (fun c => is_char c "8" || is_char c "9") num then
          (if neg then LexNum (signed neg dec) false true else LexNum (signed neg dec) true false)
        else match int_digits 8 num 0 with
             | Some oct => LexNum (signed neg oct) false false
             | None => LexLabel   (* unreachable: no 8 or 9 *)
             end
    end
  else
    match num with
    | String z (String l rest) =>
        if is_char z "0" && is_alpha l then
          match base_letter_inv (lower l) with
          | Some base =>
              match py_int base rest with
              | Some n => LexNum (signed neg n) false false
              | None => LexLabel
              end
          | None => LexLabel
          end
        else LexLabel
    | _ => LexLabel
    end.

Definition lex_number (neg : bool) (s : string) : lexnum :=
  match s with
  | String c (String l digits) => if is_char c "^" then lex_caret neg l digits else lex_plain neg s
  | _ => lex_plain neg s
  end.

(* ---- CharLiteral.resolve ------------------------------------------------------------------- *)
(* [encode cs]: str.encode(output_charset) of the whole string; None = UnicodeEncodeError.
   Returns the value and the identifiers reported. *)
Definition char_value (encode : list N -> option (list N)) (cs : list N) : Z * list string :=
  match encode cs with
  | None => (0%Z, ["invalid-character"])
  | Some bs =>
      let errs := if (2 <? N.of_nat (length bs)) then ["too-long-string"] else [] in
      (* bytes_value[:2].ljust(2, b"\x00"), struct.unpack("<H") *)
      let b0 := nth 0 bs 0 in
      let b1 := nth 1 bs 0 in
      ((Z.of_N b0 + 256 * Z.of_N b1)%Z, errs)
  end.

(* ---- radix50_literal ----------------------------------------------------------------------- *)
(* TABLE.index(char) *)
Fixpoint index_of (c : N) (l : list N) (i : N) : option N :=
  match l with
  | [] => None
  | x :: r => if x =? c then Some i else index_of c r (i + 1)
  end.

(* the character class of radix50_chars: TABLE without the blank, in both cases *)
Definition rad50_regex_char (c : ascii) : bool :=
  negb (code c =? 32) &&
  (match index_of (code c) rad50_table 0 with Some _ => true | None => false end
   || match index_of (code (upper c)) rad50_table 0 with Some _ => is_lower_alpha c | None => false end).

Fixpoint str_take (n : nat) (s : string) : string :=
  match n, s with
  | S k, String c r => String c (str_take k r)
  | _, _ => EmptyString
  end.
Fixpoint str_map (f : ascii -> ascii) (s : string) : string :=
  match s with EmptyString => EmptyString | String c r => String (f c) (str_map f r) end.

(* pack_to_int(string.ljust(3)); None = ValueError of TABLE.index *)
Definition pack_to_int (s : string) : option N :=
  let cs := map code (list_ascii_of_string s) in
  match map (fun c => index_of c rad50_table 0) (cs ++ repeat 32 (3 - length cs)%nat) with
  | [Some a; Some b; Some c] => Some (a * 1600 + b * 40 + c)
  | _ => None
  end.

Inductive lexrad :=
| LexRad (v : N) (reported : list string)   (* types.Number(value); identifiers reported while parsing *)
| LexRadCrash (site : string)
| LexRadOutside.    (* the token is not of the shape the regex matches as a whole: outside this model *)

(* [s]: the characters after ^R, up to the next blank *)
Definition rad50_literal (s : string) : lexrad :=
  if negb (str_forallb rad50_regex_char s) then LexRadOutside else
  let errs0 := match s with EmptyString => ["invalid-string"] | _ => [] end in
  let errs1 := if (3 <? N.of_nat (String.length s)) then ["invalid-string"] else [] in
  let s3 := str_map upper (str_take 3 s) in
  match pack_to_int s3 with
  | Some v => LexRad v (errs0 ++ errs1)
  | None => LexRadCrash "ValueError:radix50.encode_char"
  end.
