(* P -- character-level model of pdpy11/parser.py (the whole scannerless combinator parser).  No proofs here.

   parse_file fuel text : presult      text = code points of the source file

   The model mirrors parser.py function by function.  A Context is (pos, rest): `rest` is code[pos:], so every
   operation of the parser (regex.match(code, pos), code[pos], code.find("\n", pos), slicing) is local to `rest`.
   A parser is a function  ctx -> diagnostics so far -> out A  where out distinguishes
     Ok a c d      normal return (value, context, diagnostics)
     Fail c d      reports.RecoverableError raised; c is the state of the (mutable) Context object at the raise --
                   report tuples built with the live `ctx` are read at that moment -- and d the diagnostics, which
                   are NOT rolled back by backtracking
     Crit d        reports.UnrecoverableError (a critical report)
     Crash site    any other Python exception (IndexError, ValueError, AssertionError, KeyError ...): explicit
     OutOfFuel
   Parser.__call__ is [maybe] (maybe=True), [look] (maybe=True, lookahead=True), [or_critical]/[or_error]
   (report=(reports.critical|reports.error, ...)).  Diagnostics are (severity, identifier, [(start, end) ...]) with
   severity 0 = warning, 1 = error, 2 = critical, most recent first while parsing.
   Tables (builtin_commands rows, operator dictionaries, REGISTER_NAMES) come from Gen/GenParserTables.v, the
   radix-50 TABLE from Gen/GenRadix50.v.
   The mutually recursive functions (expression, expression_literal_rec, angle_bracketed_char, long_string,
   instruction, word_list, code and their loops) are written with open recursion over the record [funs]; [funs_at]
   ties the knot with one fuel unit per call, so fuel bounds the call depth (loop iterations included).

   Reading of Python/`re` used here (tied by tools/p_corr.py on every run):
   * str.strip()/isspace and `\s` of a str pattern = the 29 code points of SkipWs.is_space; `\S` under re.ASCII =
     everything but \t\n\v\f\r and blank; `\b`/`\w` under re.ASCII = [A-Za-z0-9_]; re.I|re.ASCII folds ASCII only;
   * found.lower() == literal in Parser.literal: exact for the literals of this grammar (none contains 'k' or 'i',
     the only ASCII letters some non-ASCII character lowers to; checked by the generator and by p_corr);
   * int(s, base) incl. the optional 0x/0o/0b prefix; sys.set_int_max_str_digits(0) is in force. *)
From Coq Require Import String Ascii List ZArith NArith Bool.
From Verif Require Import Gen.GenParserTables Gen.GenRadix50 Model.SkipWs.
Import ListNotations.
Open Scope string_scope.
Open Scope list_scope.
Open Scope N_scope.

(* ---- contexts, diagnostics, outcomes ------------------------------------------------------- *)
Record ctx := mkCtx { pos : N; rest : list N }.
Definition span := (N * N)%type.
Definition diag := (N * string * list span)%type.
Definition sp (a b : ctx) : span := (pos a, pos b).

Inductive out (A : Type) : Type :=
| Ok (a : A) (c : ctx) (d : list diag)
| Fail (c : ctx) (d : list diag)
| Crit (d : list diag)
| Crash (site : string)
| OutOfFuel.
Arguments Ok {A} a c d.
Arguments Fail {A} c d.
Arguments Crit {A} d.
Arguments Crash {A} site.
Arguments OutOfFuel {A}.

Definition parser (A : Type) := ctx -> list diag -> out A.

Definition ret {A} (a : A) : parser A := fun c d => Ok a c d.
Definition fail {A} : parser A := fun c d => Fail c d.
Definition crash {A} (s : string) : parser A := fun _ _ => Crash s.
Definition out_of_fuel {A} : parser A := fun _ _ => OutOfFuel.
Definition bind {A B} (p : parser A) (k : A -> parser B) : parser B := fun c d =>
  match p c d with
  | Ok a c' d' => k a c' d'
  | Fail c' d' => Fail c' d'
  | Crit d' => Crit d'
  | Crash s => Crash s
  | OutOfFuel => OutOfFuel
  end.
Notation "x <- p ;; k" := (bind p (fun x => k)) (at level 61, p at next level, right associativity).
Notation "p ;;; k" := (bind p (fun _ => k)) (at level 61, right associativity).

Definition get : parser ctx := fun c d => Ok c c d.
Definition set_ctx (c' : ctx) : parser unit := fun _ d => Ok tt c' d.

(* Parser.__call__(maybe=True) *)
Definition maybe {A} (p : parser A) : parser (option A) := fun c d =>
  match p c d with
  | Ok a c' d' => Ok (Some a) c' d'
  | Fail _ d' => Ok None c d'
  | Crit d' => Crit d'
  | Crash s => Crash s
  | OutOfFuel => OutOfFuel
  end.
(* Parser.__call__(maybe=True, lookahead=True) *)
Definition look {A} (p : parser A) : parser (option A) := fun c d =>
  match p c d with
  | Ok a _ d' => Ok (Some a) c d'
  | Fail _ d' => Ok None c d'
  | Crit d' => Crit d'
  | Crash s => Crash s
  | OutOfFuel => OutOfFuel
  end.
(* reports.warning / reports.error / reports.critical *)
Definition emit (sv : N) (id : string) (spans : list span) : parser unit := fun c d => Ok tt c ((sv, id, spans) :: d).
Definition warning := emit 0.
Definition error := emit 1.
Definition critical {A} (id : string) (spans : list span) : parser A := fun _ d => Crit ((2, id, spans) :: d).
(* Parser.__call__(report=(reports.critical, id, spans)): the spans may mention the live context *)
Definition or_critical {A} (p : parser A) (id : string) (spans : ctx -> list span) : parser A := fun c d =>
  match p c d with
  | Fail c' d' => Crit ((2, id, spans c') :: d')
  | r => r
  end.
(* Parser.__call__(report=(reports.error, id, spans)): None is returned after the report *)
Definition or_error {A} (p : parser A) (id : string) (spans : ctx -> list span) : parser (option A) := fun c d =>
  match p c d with
  | Ok a c' d' => Ok (Some a) c' d'
  | Fail c' d' => Ok None c' ((1, id, spans c') :: d')
  | Crit d' => Crit d'
  | Crash s => Crash s
  | OutOfFuel => OutOfFuel
  end.
(* Parser.__or__ *)
Definition por {A} (p q : parser A) : parser A :=
  m <- maybe p ;; match m with Some a => ret a | None => q end.
(* Parser.__invert__: every parser it is applied to returns a non-empty string, hence a true value *)
Definition not_p {A} (p : parser A) : parser unit :=
  m <- maybe p ;; match m with Some _ => fail | None => ret tt end.
(* running a parser on a saved copy of the context (ctx.save() then calls on the copy) *)
Definition on_copy {A} (c' : ctx) (p : parser A) : parser (A * ctx) := fun c d =>
  match p c' d with
  | Ok a c'' d' => Ok (a, c'') c d'
  | Fail _ d' => Fail c d'
  | Crit d' => Crit d'
  | Crash s => Crash s
  | OutOfFuel => OutOfFuel
  end.
Definition when (b : bool) (p : parser unit) : parser unit := if b then p else ret tt.
Definition is_some {A} (o : option A) : bool := match o with Some _ => true | None => false end.

(* ---- characters ----------------------------------------------------------------------------- *)
Definition is_digit (c : N) : bool := (48 <=? c) && (c <=? 57).
Definition is_lower (c : N) : bool := (97 <=? c) && (c <=? 122).
Definition is_upper (c : N) : bool := (65 <=? c) && (c <=? 90).
Definition is_alpha (c : N) : bool := is_lower c || is_upper c.
Definition lower (c : N) : N := if is_upper c then c + 32 else c.
Definition upper (c : N) : N := if is_lower c then c - 32 else c.
Definition is_insn_start (c : N) : bool := is_alpha c || (c =? 95).                      (* [a-z_]      *)
Definition is_word (c : N) : bool := is_alpha c || is_digit c || (c =? 95).               (* [a-z_0-9]   *)
Definition is_sym_start (c : N) : bool := is_alpha c || (c =? 95) || (c =? 36).           (* [a-z_$]     *)
Definition is_sym_char (c : N) : bool := is_word c || (c =? 36) || (c =? 46).             (* [a-z_0-9$.] *)
Definition is_ascii_space (c : N) : bool := ((9 <=? c) && (c <=? 13)) || (c =? 32).       (* \s, re.ASCII *)
Definition str_lower (s : list N) : list N := map lower s.
Fixpoint list_eqb (a b : list N) : bool :=
  match a, b with
  | [], [] => true
  | x :: a', y :: b' => if x =? y then list_eqb a' b' else false
  | _, _ => false
  end.
Fixpoint mem_str (s : list N) (l : list (list N)) : bool :=
  match l with [] => false | x :: r => if list_eqb s x then true else mem_str s r end.
Fixpoint mem_n (c : N) (l : list N) : bool :=
  match l with [] => false | x :: r => if c =? x then true else mem_n c r end.
Definition len (s : list N) : N := N.of_nat (length s).

(* builtin_commands[name] / name in builtin_commands (CaseInsensitiveDict) *)
Fixpoint assoc_cmd (k : list N) (t : list (list N * cmd)) : option cmd :=
  match t with [] => None | (k', v) :: r => if list_eqb k k' then Some v else assoc_cmd k r end.
Definition lookup_cmd (name : list N) : option cmd := assoc_cmd (str_lower name) cmd_table.
Definition in_builtin (name : list N) : bool := is_some (lookup_cmd name).
Definition is_register_name (name : list N) : bool := mem_str (str_lower name) parser_register_names.

(* ---- Context.skip_whitespace / eof ------------------------------------------------------------ *)
Fixpoint skip_cnt (in_comment : bool) (s : list N) (k : N) : list N * N :=
  match s with
  | [] => ([], k)
  | c :: r =>
      if in_comment then (if c =? 10 then skip_cnt false r (k + 1) else skip_cnt true r (k + 1))
      else if is_space c then skip_cnt false r (k + 1)
      else if c =? 59 then skip_cnt true r (k + 1)
      else (s, k)
  end.
Definition skip_ctx (c : ctx) : ctx := let (r, k) := skip_cnt false (rest c) 0 in mkCtx (pos c + k) r.
Definition skip_ws : parser unit := fun c d => Ok tt (skip_ctx c) d.
Fixpoint all_space (s : list N) : bool :=
  match s with [] => true | c :: r => if is_space c then all_space r else false end.
(* Context.eof(): on a copy, skip_whitespace, then code[pos:].strip() == "" *)
Definition ctx_eof (c : ctx) : bool := all_space (rest (skip_ctx c)).
Definition advance (k : nat) (c : ctx) : ctx := mkCtx (pos c + N.of_nat k) (skipn k (rest c)).

(* ---- Parser.literal / Parser.regex ------------------------------------------------------------- *)
(* found.lower() == literal, literal already lower-cased; returns the text after the match *)
Fixpoint lit_match (lit l : list N) : option (list N) :=
  match lit with
  | [] => Some l
  | y :: lt => match l with
               | x :: r => if (x <? 128) && (lower x =? y) then lit_match lt r else None
               | [] => None
               end
  end.
Definition literal_ns (lit : list N) : parser (list N) := fun c d =>
  match lit_match lit (rest c) with
  | Some r => Ok lit (mkCtx (pos c + len lit) r) d
  | None => Fail c d
  end.
Definition literal (lit : list N) : parser (list N) := skip_ws ;;; literal_ns lit.

(* maximal run of characters satisfying p: (run, text after it, length of the run) *)
Fixpoint span_n (p : N -> bool) (l : list N) (k : N) : list N * list N * N :=
  match l with
  | x :: r => if p x then (let '(m, r', k') := span_n p r (k + 1) in (x :: m, r', k')) else ([], l, k)
  | [] => ([], [], k)
  end.
(* [first][more]*  without skipping blanks *)
Definition regex_id_ns (first more : N -> bool) : parser (list N) := fun c d =>
  match rest c with
  | x :: r => if first x then (let '(m, r', k) := span_n more r 0 in Ok (x :: m) (mkCtx (pos c + 1 + k) r') d) else Fail c d
  | [] => Fail c d
  end.
Definition one_of_ns (p : N -> bool) : parser (list N) := fun c d =>
  match rest c with
  | x :: r => if p x then Ok [x] (mkCtx (pos c + 1) r) d else Fail c d
  | [] => Fail c d
  end.

Definition comma := literal [44].
Definition opening_parenthesis := literal [40].
Definition closing_parenthesis := literal [41].
Definition opening_angle_bracket := literal [60].
Definition closing_angle_bracket := literal [62].
Definition opening_bracket := literal [123].
Definition closing_bracket := literal [125].
Definition minus := literal [45].
Definition colon := literal [58].
Definition equals_sign := literal [61].
Definition single_quote := literal [39].
Definition double_quote := literal [34].
Definition string_quote : parser (list N) := skip_ws ;;; one_of_ns (fun c => (c =? 39) || (c =? 34) || (c =? 47)).   (* one of: single quote, double quote, slash *)
Definition character : parser (list N) := one_of_ns (fun _ => true).                                                    (* [\s\S] *)
Definition string_backslash := literal_ns [92].
(* \^[$_=[\]\\{}|:/<>?] *)
Definition caret_paren_char (c : N) : bool := mem_n c [36; 95; 61; 91; 93; 92; 123; 125; 124; 58; 47; 60; 62; 63].
Definition caret_parenthesis : parser (list N) := skip_ws ;;; (fun c d =>
  match rest c with
  | a :: x :: r => if (a =? 94) && caret_paren_char x then Ok [94; x] (mkCtx (pos c + 2) r) d else Fail c d
  | _ => Fail c d
  end).
Definition local_symbol_literal : parser (list N) := skip_ws ;;; regex_id_ns is_digit is_sym_char.   (* [0-9][a-z_0-9$.]* *)
Definition symbol_literal : parser (list N) := skip_ws ;;; regex_id_ns is_sym_start is_sym_char.     (* [a-z_$][a-z_0-9$.]* *)
(* \.?[a-z_][a-z_0-9]* *)
Definition instruction_name : parser (list N) := skip_ws ;;; (fun c d =>
  match rest c with
  | x :: r =>
      if is_insn_start x then (let '(m, r', k) := span_n is_word r 0 in Ok (x :: m) (mkCtx (pos c + 1 + k) r') d)
      else if x =? 46 then
        match r with
        | y :: r2 => if is_insn_start y then (let '(m, r', k) := span_n is_word r2 0 in Ok (46 :: y :: m) (mkCtx (pos c + 2 + k) r') d) else Fail c d
        | [] => Fail c d
        end
      else Fail c d
  | [] => Fail c d
  end).
(* [a-z_0-9$.]+  (label) *)
Definition label_name : parser (list N) := skip_ws ;;; regex_id_ns is_sym_char is_sym_char.

Definition never {A} : parser A := fail.
Definition eof : parser unit := skip_ws ;;; (fun c d => match rest c with [] => Ok tt c d | _ => Fail c d end).

(* newline = \s*\n|\s*;[^\n]*  (no blank skipping, Unicode \s).  Greedy \s* then backtracking: the first alternative
   ends after the LAST newline of the maximal blank run; otherwise the run must be followed by ';'. *)
Fixpoint ws_run (l : list N) (k : N) (last_nl : option (list N * N)) : (list N * N) * option (list N * N) :=
  match l with
  | c :: r => if is_space c then ws_run r (k + 1) (if c =? 10 then Some (r, k + 1) else last_nl) else ((l, k), last_nl)
  | [] => (([], k), last_nl)
  end.
Fixpoint until_nl (l : list N) (k : N) : list N * N :=
  match l with
  | c :: r => if c =? 10 then (l, k) else until_nl r (k + 1)
  | [] => ([], k)
  end.
Definition newline : parser unit := fun c d =>
  match ws_run (rest c) 0 None with
  | (_, Some (r, k)) => Ok tt (mkCtx (pos c + k) r) d
  | ((a :: r, k), None) => if a =? 59 then (let (r', k') := until_nl r (k + 1) in Ok tt (mkCtx (pos c + k') r') d) else Fail c d
  | _ => Fail c d
  end.

(* Parser.either([Parser.literal(op) for op in table]): the row found is what operators[...][char] returns *)
Definition oprow := (list N * N * bool)%type.
Definition op_char (o : oprow) : list N := fst (fst o).
Definition op_prec (o : oprow) : N := snd (fst o).
Definition op_left (o : oprow) : bool := snd o.
Fixpoint either_lit (ops : list oprow) : parser oprow :=
  match ops with
  | [] => fail
  | o :: r => m <- maybe (literal (op_char o)) ;; match m with Some _ => ret o | None => either_lit r end
  end.
Definition infix_operator := either_lit infix_table.
Definition prefix_operator := either_lit prefix_table.
Definition postfix_operator := either_lit postfix_table.

(* the `terminator` argument: never | literal(c1) | literal(c2) ..., most recently added first *)
Fixpoint term_p (t : list N) : parser (list N) :=
  match t with
  | [] => never
  | c :: t' => por (term_p t') (literal [c])
  end.
(* (~terminator + colon) *)
Definition not_term_colon (t : list N) : parser unit := not_p (term_p t) ;;; colon ;;; ret tt.

(* ---- the parse tree (types.py + operators.py); s e = ctx_start.pos, ctx_end.pos of the Token --------------- *)
Inductive node :=
| Symbol (s e : N) (name : list N) (is_label : bool)
| Number (s e : N) (repr : list N) (value : Z) (valid_label invalid_base8 : bool)
| CharLit (s e : N) (repr str : list N)
| IPtr (s e : N)
| Paren (s e : N) (x : node) (opening closing : list N)
| Infix (s e : N) (op : list N) (l r : node)          (* operators.call is the infix class of '$' *)
| Prefix (s e : N) (op : list N) (x : node)
| Postfix (s e : N) (op : list N) (x : node)
| QuotedStr (s e : N) (quote str : list N)
| AngleChar (s e : N) (x : node)
| Concat (s e : N) (chunks : list node)
| Insn (s e : N) (name : node) (ops : list node)
| Words (s e : N) (ws : list node)
| Label (s e : N) (name : list N) (ext : bool)
| Assign (s e : N) (target value : node) (ext : bool)
| Block (s e : N) (brace : option N) (insns : list node).   (* brace: the .ctx attribute set by instruction() *)

Definition node_start (n : node) : N :=
  match n with
  | Symbol s _ _ _ | Number s _ _ _ _ _ | CharLit s _ _ _ | IPtr s _ | Paren s _ _ _ _ | Infix s _ _ _ _
  | Prefix s _ _ _ | Postfix s _ _ _ | QuotedStr s _ _ _ | AngleChar s _ _ | Concat s _ _ | Insn s _ _ _
  | Words s _ _ | Label s _ _ _ | Assign s _ _ _ _ | Block s _ _ _ => s
  end.

(* ---- int(s, base) ------------------------------------------------------------------------------ *)
Definition digit_val (c : N) : option N :=
  if is_digit c then Some (c - 48) else if is_lower c then Some (c - 87) else if is_upper c then Some (c - 55) else None.
Definition valid_digit (base : N) (c : N) : bool :=
  match digit_val c with Some v => v <? base | None => false end.
Fixpoint int_digits (base : N) (l : list N) (acc : N) : option N :=
  match l with
  | [] => Some acc
  | c :: r => match digit_val c with
              | Some v => if v <? base then int_digits base r (acc * base + v) else None
              | None => None
              end
  end.
(* int(s, base) for s without sign, blanks or underscores: optional 0x / 0o / 0b of that base, then >= 1 digit; None = ValueError *)
Definition strip_base_prefix (base : N) (s : list N) : list N :=
  match s with
  | z :: l :: r =>
      if (z =? 48) && (((base =? 16) && (lower l =? 120)) || ((base =? 8) && (lower l =? 111)) || ((base =? 2) && (lower l =? 98))) then r else s
  | _ => s
  end.
Definition py_int (base : N) (s : list N) : option N :=
  match strip_base_prefix base s with
  | [] => None
  | s' => int_digits base s' 0
  end.
Definition signed (neg : bool) (v : N) : Z := if neg then (- Z.of_N v)%Z else Z.of_N v.

(* ---- number() ------------------------------------------------------------------------------------ *)
(* {digit}+(?![$_.])\b without blank skipping, re.I|re.ASCII: the maximal run of digits of the base, followed by
   neither [$_.] nor an ASCII word character (backtracking to a shorter run always fails \b) *)
Definition caret_digits (base : N) : parser (list N) := fun c d =>
  let '(m, r, k) := span_n (valid_digit base) (rest c) 0 in
  match m with
  | [] => Fail c d
  | _ => match r with
         | [] => Ok m (mkCtx (pos c + k) r) d
         | x :: _ => if (x =? 36) || (x =? 46) || is_word x then Fail c d else Ok m (mkCtx (pos c + k) r) d
         end
  end.
(* (lower-cased literal, prefix as spelled in the representation, base) *)
Definition caret_forms : list (list N * list N * N) :=
  [ ([94; 120], [94; 88], 16); ([94; 111], [94; 79], 8); ([94; 98], [94; 66], 2); ([94; 100], [94; 68], 10) ].
Definition sign_str (neg : bool) : list N := if neg then [45] else [].

Fixpoint number_caret (neg : bool) (cs : ctx) (forms : list (list N * list N * N)) (k : parser node) : parser node :=
  match forms with
  | [] => k
  | (pl, pr, base) :: fr =>
      m <- maybe (literal pl) ;;
      match m with
      | Some _ =>
          num <- or_critical (caret_digits base) "invalid-number" (fun cl => [sp cs cl]) ;;
          ce <- get ;;
          match int_digits base num 0 with
          | Some v => ret (Number (pos cs) (pos ce) (sign_str neg ++ pr ++ num) (signed neg v) false false)
          | None => crash "number: int(num, base) ValueError"
          end
      | None => number_caret neg cs fr k
      end
  end.

Definition all_digits (s : list N) : bool := match s with [] => false | _ => forallb is_digit s end.

Definition number_plain (t : list N) (neg : bool) (cs : ctx) : parser node :=
  num <- local_symbol_literal ;;
  m <- maybe (not_term_colon t) ;;
  match m with
  | Some _ => fail                                    (* "Local label, not a number" *)
  | None =>
    match rev num with
    | [] => crash "number: num[-1] IndexError"
    | lastc :: rnum =>
      let has_dot := lastc =? 46 in
      let num := if has_dot then rev rnum else num in
      if existsb (fun c => (c =? 36) || (c =? 95) || (c =? 46)) num then fail else
      if all_digits num then
        match int_digits 10 num 0 with
        | None => crash "number: int(num, 10) ValueError"
        | Some dec =>
          if has_dot then
            ce <- get ;; ret (Number (pos cs) (pos ce) (sign_str neg ++ num ++ [46]) (signed neg dec) false false)
          else if existsb (fun c => (c =? 56) || (c =? 57)) num then
            (if neg then
               cl <- get ;; error "invalid-number" [sp cs cl] ;;;
               ret (Number (pos cs) (pos cl) (45 :: num) (signed neg dec) false false)
             else
               ce <- get ;; ret (Number (pos cs) (pos ce) num (signed neg dec) true true))
          else
            match int_digits 8 num 0 with
            | None => crash "number: int(num, 8) ValueError"
            | Some oct => ce <- get ;; ret (Number (pos cs) (pos ce) (sign_str neg ++ num) (signed neg oct) (negb neg) false)
            end
        end
      else
        match num with
        | z :: l :: digits =>
            if (z =? 48) && is_alpha l then
              let bc := lower l in
              let base := if bc =? 120 then Some 16 else if bc =? 111 then Some 8 else if bc =? 98 then Some 2 else None in
              match base with
              | None => fail
              | Some b => match py_int b digits with
                          | None => fail
                          | Some v => ce <- get ;; ret (Number (pos cs) (pos ce) (sign_str neg ++ num) (signed neg v) (negb neg) false)
                          end
              end
            else fail
        | _ => fail
        end
    end
  end.

Definition number (t : list N) : parser node :=
  negative <- maybe minus ;;
  let neg := is_some negative in
  skip_ws ;;;
  cs <- get ;;
  number_caret neg cs caret_forms (number_plain t neg cs).

(* ---- radix50_literal ------------------------------------------------------------------------------ *)
Fixpoint index_of (c : N) (l : list N) (i : N) : option N :=
  match l with [] => None | x :: r => if x =? c then Some i else index_of c r (i + 1) end.
(* TABLE without the blank, in both cases, matched case-sensitively *)
Definition rad50_class (c : N) : bool :=
  negb (c =? 32) && (mem_n c rad50_table || (is_lower c && mem_n (upper c) rad50_table)).
Definition radix50_chars : parser (list N) := regex_id_ns rad50_class rad50_class.
Definition pack_to_int (s : list N) : option N :=
  match s ++ repeat 32 (3 - length s)%nat with
  | [a; b; c] =>
      match index_of a rad50_table 0, index_of b rad50_table 0, index_of c rad50_table 0 with
      | Some x, Some y, Some z => Some (x * 1600 + y * 40 + z)
      | _, _, _ => None
      end
  | _ => None
  end.
Definition radix50_literal : parser node :=
  skip_ws ;;; cs <- get ;;
  literal [94; 114] ;;;
  str <- or_error radix50_chars "invalid-string" (fun cl => [sp cs cl]) ;;
  let str := match str with Some s => s | None => [] end in
  cl <- get ;;
  when (3 <? len str) (error "invalid-string" [sp cs cl]) ;;;
  let str := map upper (firstn 3 str) in
  match pack_to_int str with
  | Some v => ret (Number (pos cs) (pos cl) (94 :: 82 :: str) (Z.of_N v) false false)
  | None => crash "radix50.pack_to_int: TABLE.index ValueError"
  end.

(* ---- label ---------------------------------------------------------------------------------------- *)
Definition label : parser node :=
  skip_ws ;;; cs <- get ;;
  name <- label_name ;;
  colon ;;;
  ext <- maybe (literal_ns [58]) ;;
  cl <- get ;;
  (if in_builtin name then warning "suspicious-name" [sp cs cl]
   else if is_register_name name then error "reserved-name" [sp cs cl] else ret tt) ;;;
  match name with
  | [] => crash "label: name[0] IndexError"
  | c0 :: _ =>
      if is_digit c0 && is_some ext then
        error "invalid-extern" [sp cs cl] ;;; ret (Label (pos cs) (pos cl) name false)
      else ret (Label (pos cs) (pos cl) name (is_some ext))
  end.

(* ---- instruction_pointer, symbols ---------------------------------------------------------------- *)
(* \.(?![a-z_0-9]) *)
Definition instruction_pointer : parser node :=
  skip_ws ;;; cs <- get ;;
  (skip_ws ;;; fun c d =>
     match rest c with
     | a :: r => if a =? 46 then
                   match r with
                   | x :: _ => if is_word x then Fail c d else Ok tt (mkCtx (pos c + 1) r) d
                   | [] => Ok tt (mkCtx (pos c + 1) r) d
                   end
                 else Fail c d
     | [] => Fail c d
     end) ;;;
  ce <- get ;; ret (IPtr (pos cs) (pos ce)).

Definition symbol_expression (t : list N) : parser node :=
  skip_ws ;;; cs <- get ;;
  symbol <- symbol_literal ;;
  hc <- maybe (not_term_colon t) ;;
  cl <- get ;;
  when (in_builtin symbol && negb (is_some hc)) (warning "suspicious-name" [sp cs cl]) ;;;
  ret (Symbol (pos cs) (pos cl) symbol (is_some hc)).

Definition local_symbol_expression (t : list N) : parser node :=
  skip_ws ;;; cs <- get ;;
  symbol <- local_symbol_literal ;;
  hc <- (if all_digits symbol then not_term_colon t ;;; ret true
         else m <- maybe (not_term_colon t) ;; ret (is_some m)) ;;
  ce <- get ;; ret (Symbol (pos cs) (pos ce) symbol hc).

(* ---- string escapes, character literals, quoted strings -------------------------------------------- *)
Definition is_hex (c : N) : bool := valid_digit 16 c.
(* [0-9a-f]{2} WITH blank skipping before it *)
Definition hex2 : parser (list N) := skip_ws ;;; (fun c d =>
  match rest c with
  | a :: b :: r => if is_hex a && is_hex b then Ok [a; b] (mkCtx (pos c + 2) r) d else Fail c d
  | _ => Fail c d
  end).
Definition string_escape : parser (list N) :=
  cs <- get ;;
  string_backslash ;;;
  ch <- or_error character "invalid-escape" (fun cl => [sp cs cl]) ;;
  match ch with
  | None => ret []
  | Some [] => crash "string_escape: empty match"
  | Some (ch0 :: _) =>
      (* char.lower(): a non-ASCII character never lowers to one of the characters tested below *)
      let ch := if ch0 <? 128 then lower ch0 else ch0 in
      if ch =? 110 then ret [10]
      else if ch =? 114 then ret [13]
      else if ch =? 116 then ret [9]
      else if (ch =? 92) || (ch =? 34) || (ch =? 39) || (ch =? 47) then ret [ch]
      else if ch =? 10 then ret []
      else if ch =? 120 then
        num <- or_error hex2 "invalid-escape" (fun cl => [sp cs cl]) ;;
        match num with
        | None => ret []
        | Some num => match int_digits 16 num 0 with
                      | Some v => ret [v]                      (* chr(v), v < 256 *)
                      | None => crash "string_escape: int(num, 16) ValueError"
                      end
        end
      else cl <- get ;; error "invalid-escape" [sp cs cl] ;;; ret []
  end.
Definition string_char : parser (list N) := por string_escape character.

Definition at_line_end (c : ctx) : bool :=
  match rest c with [] => true | x :: _ => (x =? 9) || (x =? 13) || (x =? 10) end.

Definition single_quoted_literal : parser node :=
  skip_ws ;;; cs <- get ;;
  single_quote ;;;
  c1 <- get ;;
  (if at_line_end c1 then critical "unterminated-string" [sp cs c1] else ret tt) ;;;
  value <- match rest c1 with
           | [] => crash "single_quoted_literal: ctx.code[ctx.pos] IndexError"
           | x :: _ => if x =? 39 then ret [] else string_char
           end ;;
  c2 <- get ;;
  if match rest c2 with x :: _ => x =? 39 | [] => false end then
      single_quote ;;; cl <- get ;;
      (if (length value <=? 1)%nat then warning "excess-quote" [sp cs cl] else crash "single_quoted_literal: message list IndexError") ;;;
      ret (CharLit (pos cs) (pos cl) (39 :: value) value)
  else ret (CharLit (pos cs) (pos c2) (39 :: value) value).

Definition dq_step (cs : ctx) (value : list N) : parser (list N) :=
  c1 <- get ;;
  (if at_line_end c1 then critical "unterminated-string" [sp cs c1] else ret tt) ;;;
  match rest c1 with
  | [] => crash "double_quoted_literal: ctx.code[ctx.pos] IndexError"
  | x :: _ => if x =? 34 then ret value else (v <- string_char ;; ret (value ++ v))
  end.
Definition double_quoted_literal : parser node :=
  skip_ws ;;; cs <- get ;;
  double_quote ;;;
  v1 <- dq_step cs [] ;;
  value <- dq_step cs v1 ;;
  c2 <- get ;;
  if match rest c2 with x :: _ => x =? 34 | [] => false end then
      double_quote ;;; cl <- get ;;
      (if (length value <=? 2)%nat then warning "excess-quote" [sp cs cl] else crash "double_quoted_literal: message list IndexError") ;;;
      ret (CharLit (pos cs) (pos cl) (34 :: value) value)
  else ret (CharLit (pos cs) (pos c2) (34 :: value) value).

(* while ctx.pos < len(ctx.code) and ctx.code[ctx.pos] != quote: value += string_char(ctx) *)
Fixpoint quoted_loop (fuel : nat) (quote : N) (value : list (list N)) : parser (list N) :=
  match fuel with
  | O => out_of_fuel
  | S f => c <- get ;;
           match rest c with
           | [] => ret (concat (rev value))
           | x :: _ => if x =? quote then ret (concat (rev value)) else (v <- string_char ;; quoted_loop f quote (v :: value))
           end
  end.
Definition quoted_string (fuel : nat) : parser node :=
  skip_ws ;;; cs <- get ;;
  quote <- string_quote ;;
  match quote with
  | [] => crash "quoted_string: empty match"
  | q :: _ =>
      value <- quoted_loop fuel q [] ;;
      c1 <- get ;;
      match rest c1 with
      | [] => critical "unterminated-string" [sp cs c1]
      | _ :: r => set_ctx (mkCtx (pos c1 + 1) r) ;;; ret (QuotedStr (pos cs) (pos c1 + 1) quote value)
      end
  end.

(* ---- expression_literal ---------------------------------------------------------------------------- *)
Definition expression_literal (t : list N) : parser node :=
  m <- maybe (symbol_expression t) ;;
  match m with Some e => ret e | None =>
  m <- maybe radix50_literal ;;
  match m with Some e => ret e | None =>
  m <- maybe (por (number t) (local_symbol_expression t)) ;;
  match m with Some e => ret e | None =>
  por (por single_quoted_literal double_quoted_literal) instruction_pointer
  end end end.

(* ---- the operator stacks of expression() ------------------------------------------------------------ *)
Inductive opent := OPre (start : N) (o : oprow) | OIn (o : oprow).
Definition opent_prec (x : opent) : N := match x with OPre _ o => op_prec o | OIn o => op_prec o end.
(* pop_op_stack(ctx_end); None = IndexError of a list.pop() *)
Definition pop_op (e : N) (ops : list opent) (stack : list node) : option (list opent * list node) :=
  match ops with
  | [] => None
  | OIn o :: ops' => match stack with
                     | rhs :: lhs :: st => Some (ops', Infix (node_start lhs) e (op_char o) lhs rhs :: st)
                     | _ => None
                     end
  | OPre s o :: ops' => match stack with
                        | x :: st => Some (ops', Prefix s e (op_char o) x :: st)
                        | _ => None
                        end
  end.
(* while op_stack and (self_precedence, is_left_associative) > (op_stack[-1]["operator"].precedence, False): pop *)
Fixpoint pop_while (p : N) (l : bool) (e : N) (ops : list opent) (stack : list node) : option (list opent * list node) :=
  match ops with
  | [] => Some ([], stack)
  | top :: ops' =>
      if (opent_prec top <? p) || ((opent_prec top =? p) && l) then
        match pop_op e ops stack with
        | Some (_, st') => pop_while p l e ops' st'
        | None => None
        end
      else Some (ops, stack)
  end.
Fixpoint pop_all (e : N) (ops : list opent) (stack : list node) : option (list node) :=
  match ops with
  | [] => Some stack
  | _ :: ops' => match pop_op e ops stack with
                 | Some (_, st') => pop_all e ops' st'
                 | None => None
                 end
  end.

(* ---- open recursion ------------------------------------------------------------------------------------ *)
Record funs := mkFuns {
  r_expression : list N -> parser node;
  r_prefix_loop : list N -> ctx -> ctx -> list opent -> parser (node * list opent);
  r_infix_loop : list N -> list opent -> list node -> parser node;
  r_elr_loop : list N -> ctx -> option node -> parser node;
  r_long_loop : ctx -> list node -> parser node;
  r_operand_loop : list N -> ctx -> ctx -> node -> list node -> ctx -> parser node;
  r_words_loop : ctx -> ctx -> list node -> parser node;
  r_code_loop : bool -> ctx -> list node -> parser node;
  r_quoted : parser node
}.

Definition u {A} (p : parser A) : parser unit := p ;;; ret tt.
Definition opening3 : parser (list N) := por (por opening_parenthesis opening_angle_bracket) caret_parenthesis.
(* \^\S with blank skipping, re.ASCII *)
Definition caret_nonspace : parser unit := skip_ws ;;; (fun c d =>
  match rest c with
  | a :: x :: r => if (a =? 94) && negb (is_ascii_space x) then Ok tt (mkCtx (pos c + 2) r) d else Fail c d
  | _ => Fail c d
  end).

Definition finish_expression (ops : list opent) (stack : list node) : parser node :=
  c <- get ;;
  match pop_all (pos c) ops stack with
  | Some (x :: _) => ret x
  | _ => crash "expression: stack IndexError"
  end.

Section Bodies.
Variable R : funs.

Definition elr_loop_body (t : list N) (cs : ctx) (value : option node) : parser node :=
  opening <- (match value with None => maybe opening3 | Some _ => maybe opening_parenthesis end) ;;
  match opening with
  | None => match value with
            | Some v => ret v
            | None => crash "expression_literal_rec: assert result is not None"
            end
  | Some op =>
      match (if list_eqb op [40] then Some ([41], t)
             else if list_eqb op [60] then Some ([62], t)
             else match op with
                  | a :: x :: _ => if a =? 94 then Some ([x], x :: t) else None
                  | _ => None
                  end) with
      | None => crash "expression_literal_rec: opening[1] IndexError / assert False"
      | Some (closing, t') =>
          cap <- get ;;
          skip_ws ;;;
          e <- or_critical (r_expression R t') "invalid-expression" (fun cl => [sp cl cl; sp cs cap]) ;;
          skip_ws ;;;
          or_critical (literal closing) "invalid-expression" (fun cl => [sp cl cl; sp cs cap]) ;;;
          ce <- get ;;
          r_elr_loop R t cs (Some (match value with
                                   | None => Paren (pos cs) (pos ce) e op closing
                                   | Some v => Infix (pos cs) (pos ce) [36] v e
                                   end))
      end
  end.

Definition elr_body (t : list N) : parser node :=
  skip_ws ;;; cs <- get ;;
  m <- look opening3 ;;
  match m with
  | Some _ => r_elr_loop R t cs None
  | None => v <- expression_literal t ;; r_elr_loop R t cs (Some v)
  end.

Definition prefix_loop_body (t : list N) (cs cop : ctx) (ops : list opent) : parser (node * list opent) :=
  m <- maybe (elr_body t) ;;
  match m with
  | Some e => ret (e, ops)
  | None =>
      let has := match ops with [] => false | _ => true end in
      let spans := fun cl => [sp cl cl; sp cs cl] in
      (if has then or_critical (not_p (term_p t)) "invalid-expression" spans else not_p (term_p t)) ;;;
      ch <- maybe prefix_operator ;;
      match ch with
      | None =>
          skip_ws ;;; cb <- get ;;
          (if has then or_critical caret_nonspace "invalid-expression" spans else caret_nonspace) ;;;
          cl <- get ;; critical "invalid-expression" [sp cb cl]
      | Some o => skip_ws ;;; cop' <- get ;; r_prefix_loop R t cs cop' (OPre (pos cop) o :: ops)
      end
  end.

Definition infix_loop_body (t : list N) (ops : list opent) (stack : list node) : parser node :=
  cprev <- get ;;
  skip_ws ;;; cop <- get ;;
  m <- look (not_p (term_p t) ;;; postfix_operator ;;;
             por (por (por (por newline (u comma)) (u closing_parenthesis)) (u closing_bracket)) eof) ;;
  match m with
  | Some _ =>
      o <- postfix_operator ;; cope <- get ;;
      match pop_while (op_prec o) (op_left o) (pos cprev) ops stack with
      | Some (ops', x :: st) => finish_expression ops' (Postfix (pos cop) (pos cope) (op_char o) x :: st)
      | _ => crash "expression: stack IndexError"
      end
  | None =>
      ch <- maybe (not_p (term_p t) ;;; infix_operator) ;;
      match ch with
      | None => set_ctx cprev ;;; finish_expression ops stack
      | Some o =>
          cope <- get ;;
          e <- or_critical (elr_body t) "invalid-expression" (fun cl => [sp cl cl; sp cop cope]) ;;
          match pop_while (op_prec o) (op_left o) (pos cprev) ops stack with
          | Some (ops', stack') => r_infix_loop R t (OIn o :: ops') (e :: stack')
          | None => crash "expression: stack IndexError"
          end
      end
  end.

Definition expression_body (t : list N) : parser node :=
  skip_ws ;;; cs <- get ;;
  r <- r_prefix_loop R t cs cs [] ;;
  r_infix_loop R t (snd r) [fst r].

Definition angle_body : parser node :=
  skip_ws ;;; cs <- get ;;
  opening_angle_bracket ;;;
  e <- r_expression R [] ;;
  closing_angle_bracket ;;;
  ce <- get ;; ret (AngleChar (pos cs) (pos ce) e).

Definition chunk : parser node := por (r_quoted R) angle_body.
Definition long_loop_body (cs : ctx) (chunks : list node) : parser node :=
  m <- maybe chunk ;;
  match m with
  | Some c => r_long_loop R cs (c :: chunks)
  | None => match chunks with
            | [x] => ret x
            | _ => ce <- get ;; ret (Concat (pos cs) (pos ce) (rev chunks))
            end
  end.
Definition long_string_body : parser node :=
  skip_ws ;;; cs <- get ;;
  c0 <- chunk ;;
  r_long_loop R cs [c0].

(* parse_insn_operand up to the choice of long_string / expression *)
Definition starts_with_dot (name : list N) : bool := match name with a :: _ => a =? 46 | [] => false end.
Definition operand_type (name : list N) (idx : nat) : parser optype :=
  let insn := match lookup_cmd name with
              | Some c => Some c
              | None => lookup_cmd (46 :: name)
              end in
  let is_meta := starts_with_dot name || match insn with Some c => c_meta c | None => false end in
  if is_meta then
    match insn with
    | Some (mkCmd _ _ _ _ (ty0 :: tys)) =>
        let ty := nth (Nat.min idx (length tys)) (ty0 :: tys) OInt in
        ret (match ty with OStr => OStr | _ => OInt end)
    | _ => m <- look string_quote ;; ret (if is_some m then OStr else OInt)
    end
  else ret OInt.
Definition by_type (ty : optype) : parser node :=
  match ty with OStr => long_string_body | _ => r_expression R [] end.

Definition assignment : parser node :=
  skip_ws ;;; cs <- get ;;
  ip <- maybe instruction_pointer ;;
  target <- (match ip with
             | Some t => ret t
             | None => symbol <- symbol_literal ;; ce <- get ;; ret (Symbol (pos cs) (pos ce) symbol false)
             end) ;;
  skip_ws ;;;
  c_eq <- get ;;
  equals_sign ;;;
  ext <- maybe (literal_ns [61]) ;;
  c_after <- get ;;
  skip_ws ;;;
  value <- or_critical (r_expression R []) "invalid-assignment" (fun cl => [sp c_eq c_after; sp cl cl]) ;;
  (match target with
   | Symbol ts te name _ =>
       if in_builtin name then warning "suspicious-name" [(ts, te)]
       else if is_register_name name then error "reserved-name" [(ts, te)] else ret tt
   | _ => ret tt
   end) ;;;
  ce <- get ;;
  match target with
  | IPtr _ _ => if is_some ext then error "invalid-assignment" [sp cs c_after] ;;; ret (Assign (pos cs) (pos ce) target value false)
                else ret (Assign (pos cs) (pos ce) target value false)
  | _ => ret (Assign (pos cs) (pos ce) target value (is_some ext))
  end.

Definition not_blank_here (c : ctx) : bool := match rest c with x :: _ => negb (is_space x) | [] => false end.
(* ctx.pos < len(ctx.code) and ctx.code[ctx.pos].strip() not in ("", ";") *)
Definition junk_here (c : ctx) : bool := match rest c with x :: _ => negb (is_space x) && negb (x =? 59) | [] => false end.
Definition set_brace (b : node) (p : N) : node := match b with Block s e _ l => Block s e (Some p) l | x => x end.

Definition code_body (brk : bool) : parser node := cs <- get ;; r_code_loop R brk cs [].

Definition operand_loop_body (name : list N) (cs can : ctx) (name_sym : node) (ops : list node) (cbc : ctx) : parser node :=
  m <- maybe comma ;;
  match m with
  | Some _ =>
      cac <- get ;;
      skip_ws ;;;
      ty <- operand_type name (length ops) ;;
      o <- or_critical (by_type ty) "invalid-operand" (fun cl => [sp cbc cac; sp cs can; sp cl cl]) ;;
      cbc' <- get ;;
      r_operand_loop R name cs can name_sym (o :: ops) cbc'
  | None =>
      cob <- get ;;
      m <- maybe opening_bracket ;;
      ops' <- (match m with
               | Some _ => blk <- code_body true ;; ret (set_brace blk (pos cob) :: ops)
               | None => ret ops
               end) ;;
      c <- get ;;
      when (junk_here c) (error "missing-whitespace" [sp c c]) ;;;
      ret (Insn (pos cs) (pos c) name_sym (rev ops'))
  end.

Fixpoint strip_left (l : list N) : list N :=
  match l with c :: r => if is_space c then strip_left r else l | [] => [] end.
Definition strip (l : list N) : list N := rev (strip_left (rev (strip_left l))).
Definition line_of (l : list N) : list N := fst (fst (span_n (fun c => negb (c =? 10)) l 0)).

Definition instruction : parser node :=
  cs <- get ;;
  name <- instruction_name ;;
  can <- get ;;
  when (is_register_name name) (warning "suspicious-name" [sp cs can]) ;;;
  let name_sym := Symbol (pos cs) (pos can) name false in
  let cmd := lookup_cmd name in
  let done := fun (ops : list node) => ce <- get ;; ret (Insn (pos cs) (pos ce) name_sym ops) in
  (match cmd with
   | Some _ =>
       m <- look comma ;;
       if is_some m then
         skip_ws ;;; cbc <- get ;; comma ;;; cl <- get ;;
         critical "invalid-insn" [sp cbc cl; sp cs can]
       else ret tt
   | None =>
       if starts_with_dot name then ret tt else
       m <- maybe (por (u comma) (not_p prefix_operator ;;; not_p caret_parenthesis ;;; u infix_operator)) ;;
       if is_some m then fail else ret tt          (* "Implicit word, not an instruction" *)
   end) ;;;
  if match cmd with Some c => c_meta c && c_litstr c | None => false end then
    c <- get ;;
    let line := line_of (rest c) in
    let text := strip line in
    match text with
    | [] => done []
    | _ => (* ctx.pos += len(line) - len(line.lstrip()): only the blanks before the text (which may begin with ';') *)
           set_ctx (advance (length line - length (strip_left line)) c) ;;;
           cbm <- get ;;
           set_ctx (advance (length text) cbm) ;;;
           ce <- get ;;
           ret (Insn (pos cs) (pos ce) name_sym [QuotedStr (pos cbm) (pos ce) [] text])
    end
  else
  m <- look closing_bracket ;;
  if is_some m then done [] else
  m <- look newline ;;
  stop <- (if is_some m then
     if match cmd with Some c => 0 <? c_min c | None => false end
     then warning "unexpected-newline" [sp cs can] ;;; ret false
     else ret true
   else ret false) ;;
  if (stop : bool) then done [] else
  next <- look (nm <- instruction_name ;; not_p colon ;;; ret nm) ;;
  split <- (match cmd, next with
            | Some c, Some nm =>
                if (match c_max c with Some 0 => true | _ => false end) && in_builtin nm then
                  c0 <- get ;;
                  r <- on_copy (skip_ctx c0)
                         (instruction_name ;;; look (por (por (u comma) (u infix_operator)) (u postfix_operator))) ;;
                  (* look restores the copy, so snd r is ctx_before_insn after instruction_name *)
                  if is_some (fst r) then ret false
                  else warning "missing-newline" [sp cs can; sp (snd r) (snd r)] ;;; ret true
                else ret false
            | _, _ => ret false
            end) ;;
  if (split : bool) then done [] else
  ty <- operand_type name 0 ;;
  first <- maybe (by_type ty) ;;
  match first with
  | Some fo =>
      cl <- get ;;
      when (not_blank_here can) (error "missing-whitespace" [sp can cl]) ;;;
      r_operand_loop R name cs can name_sym [fo] cl
  | None =>
      (match rest can with
       | [] => ret tt
       | _ => skip_ws ;;; cl <- get ;; warning "missing-newline" [sp cl cl; sp cs can]
       end) ;;;
      done []
  end.

Definition words_loop_body (cs cafo : ctx) (words : list node) : parser node :=
  c0 <- get ;;
  let cbc := skip_ctx c0 in
  m <- maybe comma ;;
  match m with
  | Some _ =>
      cac <- get ;;
      skip_ws ;;;
      w <- or_critical (r_expression R []) "invalid-operand" (fun cl => [sp cbc cac; sp cs cafo; sp cl cl]) ;;
      r_words_loop R cs cafo (w :: words)
  | None =>
      c <- get ;;
      (if junk_here c then error "missing-whitespace" [sp c c]
       else m <- look (por newline eof) ;;
            when (negb (is_some m)) (warning "missing-newline" [sp c c; sp cs c])) ;;;
      ret (Words (pos cs) (pos c) (rev words))
  end.
Definition word_list : parser node :=
  skip_ws ;;; cs <- get ;;
  w0 <- r_expression R [] ;;
  cafo <- get ;;
  r_words_loop R cs cafo [w0].

Definition statement : parser node := por (por (por label assignment) instruction) word_list.

Definition is_end_insn (n : node) : bool :=
  match n with
  | Insn _ _ (Symbol _ _ nm _) _ => let l := str_lower nm in list_eqb l [101; 110; 100] || list_eqb l [46; 101; 110; 100]
  | _ => false
  end.
Definition code_loop_body (brk : bool) (cs : ctx) (insns : list node) : parser node :=
  c <- get ;;
  if ctx_eof c then ret (Block (pos cs) (pos c) None (rev insns)) else
  skip_ws ;;; cs' <- get ;;
  m <- (if brk then maybe closing_bracket else ret None) ;;
  match m with
  | Some _ => ce <- get ;; ret (Block (pos cs') (pos ce) None (rev insns))
  | None =>
      insn <- or_critical statement "invalid-insn" (fun _ => [sp cs' cs']) ;;
      if negb brk && is_end_insn insn then ce <- get ;; ret (Block (pos cs') (pos ce) None (rev (insn :: insns)))
      else r_code_loop R brk cs' (insn :: insns)
  end.
End Bodies.

Definition funs_bot : funs :=
  mkFuns (fun _ => out_of_fuel) (fun _ _ _ _ => out_of_fuel) (fun _ _ _ => out_of_fuel) (fun _ _ _ => out_of_fuel)
         (fun _ _ => out_of_fuel) (fun _ _ _ _ _ _ => out_of_fuel) (fun _ _ _ => out_of_fuel) (fun _ _ _ => out_of_fuel) out_of_fuel.
(* one fuel unit per call through the record; the fields are eta-expanded so that funs_at f is only built on demand *)
Fixpoint funs_at (fuel : nat) : funs :=
  match fuel with
  | O => funs_bot
  | S f =>
      mkFuns (fun t c d => expression_body (funs_at f) t c d)
             (fun t cs cop ops c d => prefix_loop_body (funs_at f) t cs cop ops c d)
             (fun t ops st c d => infix_loop_body (funs_at f) t ops st c d)
             (fun t cs v c d => elr_loop_body (funs_at f) t cs v c d)
             (fun cs ch c d => long_loop_body (funs_at f) cs ch c d)
             (fun nm cs can ns ops cbc c d => operand_loop_body (funs_at f) nm cs can ns ops cbc c d)
             (fun cs cafo ws c d => words_loop_body (funs_at f) cs cafo ws c d)
             (fun brk cs insns c d => code_loop_body (funs_at f) brk cs insns c d)
             (fun c d => quoted_string f c d)
  end.

(* ---- parse(filename, text) ------------------------------------------------------------------------------ *)
Inductive presult :=
| POk (body : node) (diags : list diag)     (* types.File(filename, body); diagnostics in emission order *)
| PCritical (diags : list diag)             (* UnrecoverableError after a critical report *)
| PCrash (site : string)                    (* any other exception, incl. a RecoverableError escaping parse() *)
| POutOfFuel.

Definition parse_file (fuel : nat) (text : list N) : presult :=
  match code_body (funs_at fuel) false (mkCtx 0 text) [] with
  | Ok b _ d => POk b (rev d)
  | Fail _ _ => PCrash "parse: uncaught RecoverableError"
  | Crit d => PCritical (rev d)
  | Crash s => PCrash s
  | OutOfFuel => POutOfFuel
  end.
