(* Model/ListingM.v -- executable model of Compiler.generate_listing (compiler.py) and of the
   --lst path derivation in main_cli (_cli.py).  No proofs here.

   generate_listing, as it is in the source:

       labels_by_file = collections.defaultdict(list)
       for name, (_, addr) in self.symbols.items():
           if name.startswith(".internal"):
               label_name = name[9:].partition(".")[2]
               internal_prefix = int(name[9:].partition(".")[0])
               state = self.internal_prefix_to_state[internal_prefix]
               filename = state["filename"]
               value = wait(addr)
               labels_by_file[filename].append((label_name, value))
       result = ""
       for filename, labels in labels_by_file.items():
           result += filename + "\n"
           labels.sort(key=lambda item: (item[1], item[0]))
           for name, value in labels:
               if isinstance(value, int):
                   result += ("-" if value < 0 else "") + oct(abs(value))[2:].rjust(6, "0") + " " + name + "\n"
           result += "\n"
       return result

   The symbol table is abstracted to the list of (key, value) in insertion order (what
   CaseInsensitiveDict.items() yields: the original-case key), every value an int (after a
   successful assembly wait(addr) is an int for every symbol; the harness checks this on each
   run), and internal_prefix_to_state to the association list prefix counter -> file name.
   Strings are UTF-8 byte strings; the nine characters of ".internal" are ASCII, so the
   character slice [9:] is the byte slice. *)
From Coq Require Import String Ascii List ZArith NArith Bool DecimalString Decimal DecimalN.
From Verif Require Import Base.Res Spec.Listing.
Import ListNotations.
Open Scope string_scope.

(* ---- str methods used *)
Definition startswith (p s : string) : bool := String.prefix p s.

Fixpoint drop (n : nat) (s : string) : string :=      (* s[n:] *)
  match n, s with
  | O, _ => s
  | S n', String _ r => drop n' r
  | S _, "" => ""
  end.

(* s.partition(c) for a one-character separator *)
Fixpoint partition_char (c : ascii) (s : string) : string * string * string :=
  match s with
  | "" => ("", "", "")
  | String a r => if Ascii.eqb a c then ("", String c "", r)
                  else let '(h, sep, t) := partition_char c r in (String a h, sep, t)
  end.

(* int(s) for the strings that occur here: a non-empty run of ASCII decimal digits.
   Anything else is reported as the ValueError (Python's int() also accepts signs, blanks,
   underscores and non-ASCII digits; such keys are never produced by f".internal{n}.") *)
Definition py_int (s : string) : option N :=
  match s with
  | "" => None
  | _ => option_map N.of_uint (NilEmpty.uint_of_string s)
  end.

(* str(n) for n >= 0, used to build keys *)
Definition py_str_N (n : N) : string := NilEmpty.string_of_uint (N.to_uint n).

Fixpoint lookup (k : N) (m : list (N * string)) : option string :=
  match m with
  | [] => None
  | (k', f) :: r => if (k' =? k)%N then Some f else lookup k r
  end.

(* ---- defaultdict(list) keyed by file name, in insertion order *)
Definition item := (string * Z)%type.               (* (label_name, value) *)
Definition groups := list (string * list item).

Fixpoint add_group (f : string) (it : item) (gs : groups) : groups :=
  match gs with
  | [] => [(f, [it])]
  | (g, l) :: r => if String.eqb g f then (g, (l ++ [it])%list) :: r else (g, l) :: add_group f it r
  end.

Fixpoint collect (tbl : list (string * Z)) (pm : list (N * string)) (gs : groups) : res groups :=
  match tbl with
  | [] => Ok gs
  | (name, value) :: rest =>
      if startswith ".internal" name then
        let label_name := snd (partition_char "." (drop 9 name)) in
        match py_int (fst (fst (partition_char "." (drop 9 name)))) with
        | None => Crash "ValueError: int() in generate_listing"
        | Some k =>
            match lookup k pm with
            | None => Crash "KeyError: internal_prefix_to_state"
            | Some filename => collect rest pm (add_group filename (label_name, value) gs)
            end
        end
      else collect rest pm gs
  end.

(* ---- sort(key=lambda item: (item[1], item[0])): Python's sort is stable and uses only "<"
   on the keys; tuples compare lexicographically, str by code points *)
Fixpoint str_ltb (s t : string) : bool :=
  match s, t with
  | _, "" => false
  | "", String _ _ => true
  | String a s', String b t' =>
      if (N_of_ascii a <? N_of_ascii b)%N then true
      else if (N_of_ascii b <? N_of_ascii a)%N then false
      else str_ltb s' t'
  end.

Definition key_ltb (a b : item) : bool :=
  (snd a <? snd b)%Z || ((snd a =? snd b)%Z && str_ltb (fst a) (fst b)).

(* insertion sort, stable: x (earlier in the input) goes before the first y with not (y < x) *)
Fixpoint insert (x : item) (l : list item) : list item :=
  match l with
  | [] => [x]
  | y :: r => if key_ltb y x then y :: insert x r else x :: y :: r
  end.

Fixpoint sort (l : list item) : list item :=
  match l with
  | [] => []
  | x :: r => insert x (sort r)
  end.

(* ---- oct(): octal digits, least significant first, three bits of the positive at a time
   (structural recursion, no fuel) *)
Fixpoint oct_pos (p : positive) : list N :=
  match p with
  | xH => [1%N]
  | xO xH => [2%N]
  | xI xH => [3%N]
  | xO (xO xH) => [4%N]
  | xI (xO xH) => [5%N]
  | xO (xI xH) => [6%N]
  | xI (xI xH) => [7%N]
  | xO (xO (xO q)) => 0%N :: oct_pos q
  | xI (xO (xO q)) => 1%N :: oct_pos q
  | xO (xI (xO q)) => 2%N :: oct_pos q
  | xI (xI (xO q)) => 3%N :: oct_pos q
  | xO (xO (xI q)) => 4%N :: oct_pos q
  | xI (xO (xI q)) => 5%N :: oct_pos q
  | xO (xI (xI q)) => 6%N :: oct_pos q
  | xI (xI (xI q)) => 7%N :: oct_pos q
  end.

Definition oct_digits (n : N) : list N :=
  match n with N0 => [0%N] | Npos p => oct_pos p end.

Definition digit_char (d : N) : ascii := ascii_of_N (48 + d).

Fixpoint string_of_rev_digits (ds : list N) (acc : string) : string :=
  match ds with
  | [] => acc
  | d :: r => string_of_rev_digits r (String (digit_char d) acc)
  end.

Definition oct_str (n : N) : string := string_of_rev_digits (oct_digits n) "".

Definition py_oct (z : Z) : string :=
  (if (z <? 0)%Z then "-0o" else "0o") ++ oct_str (Z.abs_N z).

Fixpoint repeat_char (c : ascii) (n : nat) : string :=
  match n with O => "" | S k => String c (repeat_char c k) end.

Definition rjust (w : nat) (c : ascii) (s : string) : string :=
  repeat_char c (w - String.length s) ++ s.

(* ("-" if value < 0 else "") + oct(abs(value))[2:].rjust(6, "0") *)
Definition fmt_value (value : Z) : string :=
  (if (value <? 0)%Z then "-" else "") ++ rjust 6 "0" (drop 2 (py_oct (Z.abs value))).

Definition nlc : string := String (ascii_of_N 10) "".

Definition emit_lines (result : string) (labels : list item) : string :=
  fold_left (fun res it => res ++ (fmt_value (snd it) ++ " " ++ fst it ++ nlc)) labels result.

Definition emit (gs : groups) : string :=
  fold_left (fun res g => emit_lines (res ++ (fst g ++ nlc)) (sort (snd g)) ++ nlc) gs "".

Definition generate_listing (tbl : list (string * Z)) (pm : list (N * string)) : res string :=
  match collect tbl pm [] with
  | Ok gs => Ok (emit gs)
  | Err e => Err e
  | Crash s => Crash s
  | OutOfFuel => OutOfFuel
  end.

(* ---- how the table comes to be (compile_file / compile_block / compile_label /
   compile_assignment): an ordinary label or constant [name] defined by the k-th compiled file
   instance is stored under f".internal{k}." + name, a local label of the j-th local scope under
   f".local{j}." + name.  [pm] is internal_prefix_to_state reduced to k -> state["filename"]. *)
Inductive entry :=
| EOrd (k : N) (name : string) (v : Z)
| ELocal (j : N) (name : string) (v : Z).

Definition key_of (e : entry) : string :=
  match e with
  | EOrd k n _ => ".internal" ++ py_str_N k ++ "." ++ n
  | ELocal j n _ => ".local" ++ py_str_N j ++ "." ++ n
  end.

Definition value_of (e : entry) : Z := match e with EOrd _ _ v => v | ELocal _ _ v => v end.

Definition table_of (es : list entry) : list (string * Z) := map (fun e => (key_of e, value_of e)) es.

(* the ordinary symbols, in definition order, each with the name of the file whose instance defined it *)
Fixpoint ordinary (pm : list (N * string)) (es : list entry) : list sym :=
  match es with
  | [] => []
  | EOrd k n v :: r => match lookup k pm with
                       | Some f => mkSym f n v :: ordinary pm r
                       | None => ordinary pm r
                       end
  | ELocal _ _ _ :: r => ordinary pm r
  end.

Definition prefixes_known (pm : list (N * string)) (es : list entry) : Prop :=
  forall k n v, In (EOrd k n v) es -> lookup k pm <> None.

(* Note on the write step of main_cli (not modelled as a function): the listing file's bytes are
   generate_listing()'s text encoded as UTF-8 with surrogateescape, whatever the locale is
   (f.write(text.encode("utf-8", "surrogateescape")) on a file opened "wb").  The strings of this
   model are already those byte strings, so the model's text IS the file content; a file name that
   is not UTF-8 appears in it byte for byte.  Tied by the locale stream of tools/props/c19.py. *)
(* ======================================================================================== *)
(* main_cli: which file the listing is named after, and the listing path *)

Definition lower_ascii (c : ascii) : ascii :=
  let n := N_of_ascii c in if (65 <=? n)%N && (n <=? 90)%N then ascii_of_N (n + 32) else c.

Fixpoint lower (s : string) : string :=      (* str.lower() on ASCII text *)
  match s with "" => "" | String c r => String (lower_ascii c) (lower r) end.

Fixpoint rev_str (s acc : string) : string :=
  match s with "" => acc | String c r => rev_str r (String c acc) end.

Definition endswith (suffix s : string) : bool := String.prefix (rev_str suffix "") (rev_str s "").

(* s.rpartition(".")[0]: everything before the last '.', "" if there is none *)
Fixpoint rpartition_head (c : ascii) (s : string) : option string :=
  match s with
  | "" => None
  | String a r => match rpartition_head c r with
                  | Some h => Some (String a h)
                  | None => if Ascii.eqb a c then Some "" else None
                  end
  end.

Definition rpartition0 (c : ascii) (s : string) : string :=
  match rpartition_head c s with Some h => h | None => "" end.

(* s.split("/")[-1] *)
Fixpoint last_component (s : string) (cur : string) : string :=
  match s with
  | "" => rev_str cur ""
  | String a r => if Ascii.eqb a "/" then last_component r "" else last_component r (String a cur)
  end.

(*  lst_file = emitted_file["path"]
    if lst_file.endswith("." + emitted_file["format"]): lst_file = lst_file.rpartition(".")[0]
    lst_file += ".lst"
    if lst_file == "-.lst": lst_file = "listing.lst"                                        *)
Definition lst_path (path fmt : string) : string :=
  let p := if endswith ("." ++ fmt) path then rpartition0 "." path else path in
  let l := p ++ ".lst" in
  if String.eqb l "-.lst" then "listing.lst" else l.

(* (format, path) the listing is named after.
   outfile: the -o argument; first_emitted: (format, path) of the first make_xxx of the program
   (Compiler.emit_files); implicit_bin: --implicit-bin; infile: absolute path of the first source *)
Definition cli_emitted (outfile : option string) (first_emitted : option (string * string))
           (implicit_bin : bool) (infile : string) : option (string * string) :=
  let outfile' :=
      match outfile, first_emitted with
      | None, None =>
          if implicit_bin
          then Some ((if endswith ".mac" (lower infile)
                      then rev_str (drop 4 (rev_str infile "")) "" else infile) ++ ".bin")
          else None
      | _, _ => outfile
      end in
  match outfile' with
  | Some o => Some (if endswith ".bin" (lower (last_component o "")) then "bin" else "raw", o)
  | None => first_emitted
  end.

Definition cli_lst (outfile : option string) (first_emitted : option (string * string))
           (implicit_bin : bool) (infile : string) : option string :=
  match cli_emitted outfile first_emitted implicit_bin infile with
  | Some (fmt, path) => Some (lst_path path fmt)
  | None => None
  end.
