(* Hand model of where pdpy11 writes its outputs and under which tape name:
   metacommands.add_emitted_file / add_emitted_bk_wav / make_bin / make_bk0010_rom / make_raw /
   make_wav / make_turbo_wav, devices.resolve_relative_path / is_absolute_path / is_device_path,
   the posixpath functions they call (dirname, join, normpath, abspath), Compiler.emit_files and
   the output part of _cli.main_cli (-o, --implicit-bin, '-').

   Strings are lists of ASCII characters; str.lower() is modelled on ASCII only (the harness
   uses ASCII file names; the only non-ASCII characters whose lower() is ASCII are U+212A and
   U+0130, neither of which yields a character of ".mac", ".wav" or ".bin").
   Tape names are encoded with the bk charset, which is the identity on 0x00-0x7E (C14).
   No proofs here. *)
From Coq Require Import String Ascii List ZArith NArith Bool.
From Verif Require Import Base.Res Model.BkWav.
Import ListNotations.
Open Scope list_scope.
Open Scope nat_scope.

Definition str := list ascii.
Definition s (x : string) : str := list_ascii_of_string x.

Definition lower_ascii (c : ascii) : ascii :=
  let n := nat_of_ascii c in
  if (Nat.leb 65 n && Nat.leb n 90)%bool then ascii_of_nat (n + 32) else c.
Definition lower (p : str) : str := map lower_ascii p.

Fixpoint str_eqb (a b : str) : bool :=
  match a, b with
  | [], [] => true
  | x :: a', y :: b' => Ascii.eqb x y && str_eqb a' b'
  | _, _ => false
  end.

Definition ends_with (p suf : str) : bool :=
  Nat.leb (length suf) (length p) && str_eqb (skipn (length p - length suf) p) suf.
Fixpoint starts_with (p pre : str) : bool :=
  match pre, p with
  | [], _ => true
  | x :: pre', y :: p' => Ascii.eqb x y && starts_with p' pre'
  | _ :: _, [] => false
  end.
(* p[:-n] for 0 < n *)
Definition drop_last (n : nat) (p : str) : str := firstn (length p - n) p.

Definition slash : ascii := "/"%char.
Definition dot : ascii := "."%char.

(* str.split(sep): always at least one component *)
Fixpoint split_on (sep : ascii) (p : str) : list str :=
  match p with
  | [] => [[]]
  | c :: r =>
      if Ascii.eqb c sep then [] :: split_on sep r
      else match split_on sep r with
           | h :: t => (c :: h) :: t
           | [] => [[c]]
           end
  end.

Fixpoint join_with (sep : ascii) (cs : list str) : str :=
  match cs with
  | [] => []
  | [c] => c
  | c :: r => c ++ sep :: join_with sep r
  end.

Definition last_comp (sep : ascii) (p : str) : str := last (split_on sep p) [].

(* ------------------------------------------------------------------ posixpath *)
Fixpoint rstrip_slash_rev (r : str) : str :=
  match r with
  | c :: r' => if Ascii.eqb c slash then rstrip_slash_rev r' else r
  | [] => []
  end.
Definition rstrip_slash (p : str) : str := rev (rstrip_slash_rev (rev p)).

(* the part up to and including the last slash *)
Fixpoint head_upto_slash (p : str) : str :=
  match p with
  | [] => []
  | c :: r =>
      let h := head_upto_slash r in
      match h with
      | [] => if Ascii.eqb c slash then [c] else []
      | _ => c :: h
      end
  end.

Definition all_slashes (p : str) : bool := forallb (fun c => Ascii.eqb c slash) p.

Definition dirname (p : str) : str :=
  let head := head_upto_slash p in
  if all_slashes head then head else rstrip_slash head.

Definition path_join (a b : str) : str :=
  if starts_with b [slash] then b
  else match a with
       | [] => b
       | _ => if ends_with a [slash] then a ++ b else a ++ slash :: b
       end.

Definition dotdot : str := [dot; dot].

(* new_comps is kept reversed *)
Definition norm_step (rooted : bool) (acc : list str) (comp : str) : list str :=
  if str_eqb comp [] || str_eqb comp [dot] then acc
  else if negb (str_eqb comp dotdot)
          || (negb rooted && match acc with [] => true | _ => false end)
          || match acc with top :: _ => str_eqb top dotdot | [] => false end
       then comp :: acc
       else match acc with _ :: t => t | [] => [] end.

Definition normpath (p : str) : str :=
  match p with
  | [] => [dot]
  | _ =>
      let initial : nat :=
        if starts_with p [slash] then
          if (starts_with p [slash; slash] && negb (starts_with p [slash; slash; slash]))%bool then 2 else 1
        else 0 in
      let comps := rev (fold_left (norm_step (negb (Nat.eqb initial 0))) (split_on slash p) []) in
      let r := repeat slash initial ++ join_with slash comps in
      match r with [] => [dot] | _ => r end
  end.

Definition abspath (cwd p : str) : str :=
  normpath (if starts_with p [slash] then p else path_join cwd p).

(* ------------------------------------------------------------------ devices.py *)
(* re.match(r"^~([a-z]+)($| )", path, re.I) with the name in DEVICES = {"speaker"} *)
Definition is_device_path (p : str) : bool :=
  let l := lower p in
  str_eqb l (s "~speaker") || starts_with l (s "~speaker ").

(* path == os.path.abspath(path): a relative path never equals an absolute one *)
Definition is_absolute_path (p : str) : bool :=
  (starts_with p [slash] && str_eqb p (normpath p)) || is_device_path p.

Definition resolve_relative_path (rel base : str) : str :=
  if is_absolute_path rel then rel else normpath (path_join (dirname base) rel).

(* ------------------------------------------------------------------ metacommands.py *)
Inductive directive := MakeBin | MakeBk0010Rom | MakeRaw | MakeWav | MakeTurboWav.

Definition strip_suffix_ci (p suf : str) : str :=
  if ends_with (lower p) suf then drop_last (length suf) p else p.

(* the branch `file_path is None` of add_emitted_file / add_emitted_bk_wav *)
Definition default_path (filename : str) (ext : option str) : str :=
  let stem := strip_suffix_ci filename (s ".mac") in
  match ext with
  | Some e => stem ++ dot :: e
  | None => stem
  end.

Definition write_path_of (file_path : option str) (filename : str) (ext : option str) : str :=
  match file_path with
  | Some p => resolve_relative_path p filename
  | None => default_path filename ext
  end.

(* str.encode(charset) for the characters the harness uses (identity on ASCII, see C14) *)
Definition encode_name (n : str) : list Z := map (fun c => Z.of_N (N_of_ascii c)) n.

(* encoded[:16] when too long (with an error), then .ljust(16, b" ") *)
Definition pad_name (enc : list Z) : list Z * bool :=
  let too_long := Nat.ltb 16 (length enc) in
  let t := if too_long then firstn 16 enc else enc in
  (t ++ repeat 32%Z (16 - length t), too_long).

Record emitted := {
  e_format : format;
  e_path : str;
  e_name : option (list Z);     (* the 16-byte tape name, for the WAV formats *)
  e_error : bool }.             (* a 'too-long-string' error was reported *)

Definition emit_plain (f : format) (ext : option str) (file_path : option str) (filename : str) : emitted :=
  {| e_format := f; e_path := write_path_of file_path filename ext; e_name := None; e_error := false |}.

Definition emit_wav (f : format) (file_path tape_name : option str) (filename : str) : emitted :=
  let wp := write_path_of file_path filename (Some (s "wav")) in
  let nm := match tape_name with
            | Some n => n
            | None => strip_suffix_ci (last_comp slash wp) (s ".wav")
            end in
  let (padded, err) := pad_name (encode_name nm) in
  {| e_format := f; e_path := wp; e_name := Some padded; e_error := err |}.

(* a make_xxx directive standing in the source file [filename] *)
Definition emit_directive (d : directive) (file_path tape_name : option str) (filename : str) : emitted :=
  match d with
  | MakeBin | MakeBk0010Rom => emit_plain FmtBin (Some (s "bin")) file_path filename
  | MakeRaw => emit_plain FmtRaw None file_path filename
  | MakeWav => emit_wav FmtBkWav file_path tape_name filename
  | MakeTurboWav => emit_wav FmtBkTurboWav file_path tape_name filename
  end.

(* ------------------------------------------------------------------ _cli.main_cli, output part *)
Inductive dest := ToFile (p : str) | ToStdout.

Record output := { o_dest : dest; o_format : format; o_tape_name : option (list Z) }.

Definition contains (c : ascii) (p : str) : bool := existsb (Ascii.eqb c) p.

Definition o_option_output (outfile : str) : output :=
  let fname := last_comp slash outfile in
  let ext := if contains dot fname then last_comp dot fname else [] in
  let f := if ends_with (lower fname) (s ".bin") then FmtBin else FmtRaw in
  let d := if str_eqb outfile (s "-") || str_eqb outfile (s "-." ++ ext) then ToStdout else ToFile outfile in
  {| o_dest := d; o_format := f; o_tape_name := None |}.

(* infile as given on the command line -> the name the compiler sees *)
Definition source_name (cwd infile : str) : str := abspath cwd infile.

(* args.outfile after the --implicit-bin step: only without -o and without directives the first
   source names the file *)
Definition effective_outfile (first_source : str) (emitted_list : list emitted)
           (outfile : option str) (implicit_bin : bool) : option str :=
  match outfile, emitted_list with
  | None, [] => if implicit_bin then Some (strip_suffix_ci first_source (s ".mac") ++ s ".bin") else None
  | _, _ => outfile
  end.

(* metacommands.include: the included file is parsed under its RESOLVED path -- the operand
   resolved against the including file -- and that is the state["filename"] its directives see *)
Definition included_name (operand including_filename : str) : str :=
  resolve_relative_path operand including_filename.

(* outputs of a successful run: the directives' files in order, then the -o / --implicit-bin
   file.  [emitted_list] are the directives of all linked files; an error among them fails the
   assembly before anything is written. *)
Definition cli_outputs (first_source : str) (emitted_list : list emitted)
           (outfile : option str) (implicit_bin : bool) : option (list output) :=
  if existsb e_error emitted_list then None else
  let from_directives :=
    map (fun e => {| o_dest := ToFile (e_path e); o_format := e_format e; o_tape_name := e_name e |}) emitted_list in
  Some (from_directives ++ match effective_outfile first_source emitted_list outfile implicit_bin with
                           | Some o => [o_option_output o]
                           | None => []
                           end).

(* --lst: the listing goes next to the -o / --implicit-bin file, else next to the first
   directive's file: a trailing ".<format name>" is replaced by ".lst"; for stdout it is
   "listing.lst" *)
Definition format_name (f : format) : str :=
  match f with FmtBin => s "bin" | FmtRaw => s "raw" | FmtBkWav => s "bk_wav" | FmtBkTurboWav => s "bk_turbo_wav" end.

Definition listing_path (f : format) (path : str) : str :=
  let ext := dot :: format_name f in
  let stem := if ends_with path ext then drop_last (length ext) path else path in
  let l := stem ++ s ".lst" in
  if str_eqb l (s "-.lst") then s "listing.lst" else l.

Definition cli_listing (first_source : str) (emitted_list : list emitted)
           (outfile : option str) (implicit_bin : bool) : option str :=
  if existsb e_error emitted_list then None else
  match effective_outfile first_source emitted_list outfile implicit_bin with
  | Some o => Some (listing_path (o_format (o_option_output o)) o)
  | None => match emitted_list with
            | e :: _ => Some (listing_path (e_format e) (e_path e))
            | [] => None
            end
  end.
