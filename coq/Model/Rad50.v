(* Hand model of pdpy11/radix50.py (encode_char, pack_to_int), of the '.rad50' metacommand
   (pdpy11/metacommands.py: rad50) and of the '^R' literal (pdpy11/parser.py: radix50_chars,
   radix50_literal), over the TABLE regenerated from the source (Gen/GenRadix50.v).
   No proofs here.  Code points are N; codes, words and bytes are Z.

   '.rad50' refuses every non-ASCII character before it looks at str.upper() (char.isascii(), since
   aa9a583) and '^R' only matches ASCII characters, so str.upper() is only ever applied to ASCII
   characters, where it is [ascii_up]: a..z -> A..Z, everything else unchanged. *)
From Coq Require Import String List ZArith NArith Bool.
Notation length := Datatypes.length.
From Verif Require Import Base.Res Base.Bytes Gen.GenRadix50.
Import ListNotations.
Open Scope list_scope.
Open Scope Z_scope.

Section Rad50.
Variable table : list N.           (* radix50.TABLE *)

(* str.upper() of an ASCII character *)
Definition ascii_up (c : N) : N := if ((97 <=? c) && (c <=? 122))%N then (c - 32)%N else c.

(* TABLE.index(ch) for a one-character string: first position, None = ValueError *)
Fixpoint index_from (i : Z) (t : list N) (ch : N) : option Z :=
  match t with
  | [] => None
  | x :: rest => if N.eqb x ch then Some i else index_from (i + 1) rest ch
  end.
Definition index_of (ch : N) : option Z := index_from 0 table ch.

(* radix50.encode_char *)
Definition encode_char (ch : N) : res Z :=
  match index_of ch with
  | Some i => Ok i
  | None => Crash "ValueError: TABLE.index"
  end.

(* radix50.pack_to_int: assert len <= 3; ljust(3, " "); a, b, c = string *)
Definition pack_to_int (s : list N) : res Z :=
  if Nat.ltb 3 (length s) then Crash "AssertionError: pack_to_int"
  else
    match s ++ repeat 32%N (3 - length s) with
    | [a; b; c] =>
        do x <- encode_char a; do y <- encode_char b; do z <- encode_char c;
        Ok (x * 1600 + y * 40 + z)
    | _ => Crash "unreachable"
    end.

(* ---- '.rad50' ---------------------------------------------------------------------------- *)
(* an operand chunk after parsing and evaluation: a quoted string (its characters, escapes already
   resolved) or <expr> with the integer the expression evaluated to *)
Inductive chunk := Str (s : list N) | Code (n : Z).

(* one character of a string chunk: (code appended, error reported?)
     if not char.isascii(): raise ValueError(char)
     val = radix50.TABLE.index(char.upper())        except ValueError: report, val = 0 *)
Definition char_code (ch : N) : Z * bool :=
  if (128 <=? ch)%N then (0, true)
  else match index_of (ascii_up ch) with
       | Some i => (i, false)
       | None => (0, true)
       end.

(* <n>: get_as_int(bitness=None, unsigned=True, default=0), then 'if val >= 40' *)
Definition angle_code (n : Z) : Z * bool :=
  if n <? 0 then (0, true)
  else if 40 <=? n then (0, true)
  else (n, false).

Definition err_if (b : bool) (id : string) : list string := if b then [id] else [].

(* codes and the identifiers of the errors reported, in order *)
Fixpoint chunk_codes (cs : list chunk) : list Z * list string :=
  match cs with
  | [] => ([], [])
  | Str s :: rest =>
      let here := map char_code s in
      let '(ks, es) := chunk_codes rest in
      (map fst here ++ ks, flat_map (fun p => err_if (snd p) "invalid-character") here ++ es)
  | Code n :: rest =>
      let '(k, e) := angle_code n in
      let '(ks, es) := chunk_codes rest in
      (k :: ks, err_if e "value-out-of-bounds" ++ es)
  end.

(* while len(characters) % 3 != 0: characters.append(0);  then struct.pack("<H", a*1600+b*40+c) *)
Fixpoint pack_words (ks : list Z) : res (list Z) :=
  match ks with
  | [] => Ok []
  | [a] => pack_H (a * 1600 + 0 * 40 + 0)
  | [a; b] => pack_H (a * 1600 + b * 40 + 0)
  | a :: b :: c :: rest =>
      do w <- pack_H (a * 1600 + b * 40 + c);
      do ws <- pack_words rest;
      Ok (w ++ ws)
  end.

(* the bytes '.rad50' emits; Err = the assembly fails with these error identifiers *)
Definition rad50 (cs : list chunk) : res (list Z) :=
  let '(ks, es) := chunk_codes cs in
  do bs <- pack_words ks;
  match es with
  | [] => Ok bs
  | _ => Err es
  end.

(* ---- '^R' -------------------------------------------------------------------------------- *)
(* str.lower() of the table characters (all ASCII) *)
Definition ascii_lower (c : N) : N := if ((65 <=? c) && (c <=? 90))%N then (c + 32)%N else c.

(* the character class of radix50_chars: TABLE without the space, and its lower-case form *)
Definition lit_class (c : N) : bool :=
  let t := filter (fun x => negb (N.eqb x 32)) table in
  existsb (N.eqb c) t || existsb (N.eqb c) (map ascii_lower t).

Fixpoint take_while (p : N -> bool) (s : list N) : list N :=
  match s with
  | [] => []
  | c :: rest => if p c then c :: take_while p rest else []
  end.

(* radix50_literal applied to the text that follows "^R": the value of the Number token.
   An empty match and a match longer than 3 characters are reported ('invalid-string') and parsing
   continues with "" resp. the first three characters; string.upper(); pack_to_int. *)
Definition literal (text : list N) : res Z :=
  let m := take_while lit_class text in
  let es := err_if (match m with [] => true | _ => false end) "invalid-string"
            ++ err_if (Nat.ltb 3 (length m)) "invalid-string" in
  do v <- pack_to_int (map ascii_up (firstn 3 m));
  match es with
  | [] => Ok v
  | _ => Err es
  end.

(* number of characters the literal consumes after "^R" *)
Definition literal_consumed (text : list N) : nat := length (take_while lit_class text).

End Rad50.

Definition rad50_ascii := rad50 rad50_table.
Definition literal_ascii := literal rad50_table.

(* the 16-bit words of an even-length little-endian byte string *)
Fixpoint words_of_bytes (bs : list Z) : list Z :=
  match bs with
  | lo :: hi :: rest => word_of lo hi :: words_of_bytes rest
  | _ => []
  end.
