(* Small executable models of the mechanisms that make spelling irrelevant (C10).  No proofs here.

   1. registers      try_as_register (insns.py) over the regenerated REGISTER_NAMES; '%n'
   2. numbers        parser.number(): radix prefixes, trailing-dot decimal, bare octal, 8/9
   3. grouping       the bracket styles (evaluation: see Proofs/SpellingShared.v, on the shared evaluators)
   4. operands       RegisterModeOperandStub.encode (without hoisting): '(rN)', '@rN', ...
   5. synonyms       mnemonics documented as synonyms, looked up in the regenerated opcode table
   6. word lists     (on Model/Directives, see Proofs/SpellingShared.v)

   Strings are lists of code points (N).  Parser.regex compiles with re.I | re.ASCII (pinned by
   tools/gens/gen_spelling.py), so character classes are the ASCII ones below; [LUnmodelled]
   is kept for int() failing on a digit string the classes admitted (cannot happen: proved
   for all spellings in Proofs/SpellingP.v). *)
From Coq Require Import List NArith ZArith Bool String Ascii.
From Verif Require Import Base.Res Gen.GenOpcodes Gen.GenSpelling Model.CIDict Model.SkipWs.
Import ListNotations.
Open Scope N_scope.

Definition s2n (s : string) : str := map N_of_ascii (list_ascii_of_string s).

Definition ascii_lower_str (s : str) : str := map ascii_lower s.

Fixpoint assoc_str {A} (k : str) (l : list (str * A)) : option A :=
  match l with
  | [] => None
  | (k', v) :: r => if str_eqb k' k then Some v else assoc_str k r
  end.

(* ------------------------------------------------------------------ 1. registers *)
Definition reg_table : list (str * N) := map (fun p => (s2n (fst p), snd p)) reg_names_insns.

(* get_as_int(state, "register index", ..., bitness=3, unsigned=True) *)
Definition gai_reg (v : Z) : res N :=
  if (v <? 0)%Z then Err ["value-out-of-bounds"%string]
  else if (8 <=? v)%Z then Err ["value-out-of-bounds"%string]
  else Ok (Z.to_N v).

Inductive regtok :=
| RSym (name : str) (necessarily_label : bool)     (* types.Symbol *)
| RPct (v : Z)                                     (* operators.register applied to a value v *)
| ROther.

Section Reg.
Variable low : str -> str.            (* str.lower *)

(* None = "not a register"; Some r = register whose index is r (for '%n' it is computed later
   and may fail) *)
Definition try_as_register (t : regtok) : option (res N) :=
  match t with
  | RSym name lbl =>
      if lbl then None
      else match assoc_str (low name) reg_table with Some n => Some (Ok n) | None => None end
  | RPct v => Some (gai_reg v)
  | ROther => None
  end.

(* try_accumulator_from_symbol: len(name) == 3 and "ac0" <= name <= "ac5" (string comparison) *)
Definition try_accumulator (t : regtok) : option N :=
  match t with
  | RSym name _ =>
      match low name with
      | [a; c; d] => if (a =? 97) && (c =? 99) && (48 <=? d) && (d <=? 53) then Some (d - 48) else None
      | _ => None
      end
  | _ => None
  end.
End Reg.

(* ------------------------------------------------------------------ 2. numbers *)
Inductive lexres :=
| LNumber (value : Z) (valid_label : bool) (invalid8 : bool) (reported : bool)
| LNotNumber          (* reports.RecoverableError: a local label / not a number *)
| LCritical           (* 'invalid-number' critical report after a caret prefix *)
| LUnmodelled.

Definition is_digit (c : N) : bool := (48 <=? c) && (c <=? 57).
Definition is_alpha (c : N) : bool := ((65 <=? c) && (c <=? 90)) || ((97 <=? c) && (c <=? 122)).
(* a character of  [a-z_0-9$.]  under re.I, ASCII part *)
Definition is_tokch (c : N) : bool := is_digit c || is_alpha c || (c =? 95) || (c =? 36) || (c =? 46).
(* \w, ASCII part *)
Definition is_word (c : N) : bool := is_digit c || is_alpha c || (c =? 95).

(* value of a digit character as in int(s, base) *)
Definition digit_val (c : N) : option N :=
  if is_digit c then Some (c - 48)
  else if (97 <=? c) && (c <=? 122) then Some (c - 87)
  else if (65 <=? c) && (c <=? 90) then Some (c - 55)
  else None.

Fixpoint int_digits (base acc : N) (ds : str) : option N :=
  match ds with
  | [] => Some acc
  | c :: r =>
      match digit_val c with
      | Some v => if v <? base then int_digits base (acc * base + v) r else None
      | None => None
      end
  end.

(* int(s, base) for s made of [A-Za-z0-9]: optional '0x'/'0o'/'0b' prefix matching the base,
   then at least one digit; None = ValueError *)
Definition strip_base_prefix (base : N) (s : str) : str :=
  match s with
  | z :: l :: r =>
      if (z =? 48) && (((base =? 16) && (ascii_lower l =? 120)) || ((base =? 8) && (ascii_lower l =? 111))
                       || ((base =? 2) && (ascii_lower l =? 98))) then r else s
  | _ => s
  end.

Definition py_int (base : N) (s : str) : option N :=
  match strip_base_prefix base s with
  | [] => None
  | body => int_digits base 0 body
  end.

Fixpoint span (p : N -> bool) (s : str) : str * str :=
  match s with
  | [] => ([], [])
  | c :: r => if p c then let (a, b) := span p r in (c :: a, b) else ([], s)
  end.

Definition in_class (kind : string) (c : N) : bool :=
  if String.eqb kind "hex" then is_digit c || ((97 <=? ascii_lower c) && (ascii_lower c <=? 102))
  else if String.eqb kind "oct" then (48 <=? c) && (c <=? 55)
  else if String.eqb kind "bin" then (c =? 48) || (c =? 49)
  else if String.eqb kind "dec" then is_digit c
  else false.

(* Parser.literal(prefix) on ASCII text: found.lower() == prefix.lower() *)
Fixpoint match_literal (lit s : str) : option str :=
  match lit, s with
  | [], _ => Some s
  | l :: ls, c :: r => if is_ascii c then (if ascii_lower l =? ascii_lower c then match_literal ls r else None) else None
  | _ :: _, [] => None
  end.

(* the for-loop over ("^X", ..) rows: the first prefix that matches decides *)
Fixpoint caret_number (rows : list (string * string * N)) (sign : Z) (s : str) : option lexres :=
  match rows with
  | [] => None
  | (pre, kind, base) :: more =>
      match match_literal (s2n pre) s with
      | Some rest =>
          let (ds, after) := span (in_class kind) rest in
          Some
            match ds with
            | [] => LCritical
            | _ =>
                match after with
                | c :: _ =>
                    (* (?![$_.])\b with re.ASCII: a non-ASCII character is not a word character *)
                    if is_word c || (c =? 36) || (c =? 46) then LCritical
                    else match py_int base ds with
                         | Some v => LNumber (sign * Z.of_N v) false false false
                         | None => LUnmodelled
                         end
                | [] => match py_int base ds with
                        | Some v => LNumber (sign * Z.of_N v) false false false
                        | None => LUnmodelled
                        end
                end
            end
      | None => caret_number more sign s
      end
  end.

Fixpoint last_opt (s : str) : option N :=
  match s with [] => None | [c] => Some c | _ :: r => last_opt r end.
Definition mem_ch (c : N) (s : str) : bool := existsb (N.eqb c) s.

Definition c_base (l : N) : option N := assoc_str [ascii_lower l] (map (fun p => (s2n (fst p), snd p)) c_bases).

Definition starts_with_colon (s : str) : bool := match s with c :: _ => c =? 58 | [] => false end.

(* the local-symbol-shaped token [tok] = what local_symbol_literal matched, once it is known
   not to be followed by a colon *)
Definition classify_token (sign : Z) (tok : str) : lexres :=
  let has_dot := match last_opt tok with Some c => c =? 46 | None => false end in
  let num := if has_dot then removelast tok else tok in
  if mem_ch 36 num || mem_ch 95 num || mem_ch 46 num then LNotNumber
  else if forallb is_digit num && negb (match num with [] => true | _ => false end) then
    if has_dot then
      match py_int 10 num with Some v => LNumber (sign * Z.of_N v) false false false | None => LUnmodelled end
    else if mem_ch 56 num || mem_ch 57 num then
      match py_int 10 num with
      | Some v => if (sign =? -1)%Z then LNumber (sign * Z.of_N v) false false true
                  else LNumber (Z.of_N v) true true false
      | None => LUnmodelled end
    else
      match py_int 8 num with Some v => LNumber (sign * Z.of_N v) (sign =? 1)%Z false false | None => LUnmodelled end
  else
    match num with
    | z :: l :: body =>
        if (z =? 48) && is_alpha l then
          match c_base l with
          | None => LNotNumber
          | Some base =>
              match py_int base body with
              | Some v => LNumber (sign * Z.of_N v) (sign =? 1)%Z false false
              | None => LNotNumber
              end
          end
        else LNotNumber
    | _ => LNotNumber
    end.

(* the part of parser.number() after the caret prefixes: a local-symbol-shaped token.
   re.I | re.ASCII: [a-z] matches ASCII letters only, any other character ends the token *)
Definition plain_number (sign : Z) (s1 : str) : lexres :=
  match s1 with
  | [] => LNotNumber
  | c0 :: _ =>
      if negb (is_digit c0) then LNotNumber
      else
        let (tok, after) := span is_tokch s1 in
        if starts_with_colon (skip after) then LNotNumber     (* followed by ':' : a local label *)
        else classify_token sign tok
  end.

(* parser.number(ctx) with terminator=never, on the text [s] at the current position *)
Definition lex_number (s : str) : lexres :=
  let s0 := skip s in
  let '(sign, s1) := match s0 with 45 :: r => ((-1)%Z, skip r) | _ => (1%Z, s0) end in
  match caret_number caret_prefixes sign s1 with
  | Some r => r
  | None => plain_number sign s1
  end.

Definition lex_value (r : lexres) : option Z := match r with LNumber v _ _ _ => Some v | _ => None end.

(* ---- spellings of a natural number *)
Fixpoint to_digits (fuel : nat) (b n : N) (acc : list N) : list N :=
  match fuel with
  | O => acc
  | S f => let acc' := (n mod b) :: acc in
           if n / b =? 0 then acc' else to_digits f b (n / b) acc'
  end.
(* digit values, most significant first; "0" for 0 *)
Definition digits (b n : N) : list N := to_digits (S (N.to_nat (N.log2 n))) b n [].

Definition digit_char (up : bool) (v : N) : N :=
  if v <? 10 then 48 + v else (if up then 55 else 87) + v.

Fixpoint chars_of (mask : nat -> bool) (i : nat) (vs : list N) : str :=
  match vs with
  | [] => []
  | v :: r => digit_char (mask i) v :: chars_of mask (S i) r
  end.

Inductive style :=
| SOct                         (* 177 *)
| SDec                         (* 127. *)
| SC (base_letter : N)         (* 0x7f 0X7F 0o177 0b1111111: base_letter is one of x X o O b B *)
| SCaret (base_letter : N).    (* ^X7f ^o177 ^B.. ^d127 *)

Definition base_of_letter (l : N) : N :=
  let l := ascii_lower l in
  if l =? 120 then 16 else if l =? 111 then 8 else if l =? 98 then 2 else 10.

Definition style_ok (st : style) : bool :=
  match st with
  | SOct | SDec => true
  | SC l => let l := ascii_lower l in (l =? 120) || (l =? 111) || (l =? 98)
  | SCaret l => let l := ascii_lower l in (l =? 120) || (l =? 111) || (l =? 98) || (l =? 100)
  end.

(* mask: which hex digits are written in upper case *)
Definition spell (st : style) (mask : nat -> bool) (n : N) : str :=
  match st with
  | SOct => chars_of mask 0 (digits 8 n)
  | SDec => (chars_of mask 0 (digits 10 n) ++ [46])%list
  | SC l => 48 :: l :: chars_of mask 0 (digits (base_of_letter l) n)
  | SCaret l => 94 :: l :: chars_of mask 0 (digits (base_of_letter l) n)
  end.

(* what may follow a number for the theorem: end of text, or an ASCII character that cannot
   continue the token and does not lead to a ':' *)
Definition follow_ok (rest : str) : bool :=
  match rest with
  | [] => true
  | c :: _ => is_ascii c && negb (is_tokch c) && negb (is_word c) && negb (starts_with_colon (skip rest))
  end.

(* ------------------------------------------------------------------ 3. grouping *)
(* the bracket styles of types.ParenthesizedExpression.  Evaluation is NOT modelled here: the C10
   theorem about grouping is stated on Spec/Arith.eval and Model/ExprParse.meval (Proofs/SpellingShared.v),
   the evaluators C05 is about. *)
Inductive bracket := BParen | BAngle | BCaret (delim : N).

(* ------------------------------------------------------------------ 4. operands *)
Inductive otree :=
| OReg (t : regtok)                 (* a Symbol or a '%' operator: what try_as_register looks at *)
| OParen (br : bracket) (t : otree) (* ParenthesizedExpression *)
| ODeferred (t : otree)             (* @x *)
| OPostAdd (t : otree)              (* x+ *)
| ONeg (t : otree)                  (* -x *)
| OCall (l r : otree)               (* l(r) *)
| OImm (t : otree)                  (* #x *)
| OVal.                             (* any other expression *)

Inductive ext := XNone | XIndex (t : otree) | XZero | XImm (t : otree) | XAbs (t : otree) | XRel (t : otree) | XRelDef (t : otree).

Record encoded := { e_mode : N; e_reg : res N; e_ext : ext; e_warn : list string }.

Section Operand.
Variable low : str -> str.

Definition as_reg (t : otree) : option (res N) :=
  match t with OReg r => try_as_register low r | _ => None end.

Definition is_paren (t : otree) : option otree :=
  match t with OParen BParen x => Some x | _ => None end.

Definition enc m r x w := {| e_mode := m; e_reg := r; e_ext := x; e_warn := w |}.

(* RegisterModeOperandStub.encode after hoisting, branch by branch in source order *)
Definition classify (t : otree) : encoded :=
  match as_reg t with
  | Some r => enc 0 r XNone []
  | None =>
  match (match is_paren t with Some x => as_reg x | None => None end) with
  | Some r => enc 1 r XNone []
  | None =>
  match (match t with ODeferred x => as_reg x | _ => None end) with
  | Some r => enc 1 r XNone ["legacy-deferred"%string]
  | None =>
  match (match t with OPostAdd p => match is_paren p with Some x => as_reg x | None => None end | _ => None end) with
  | Some r => enc 2 r XNone []
  | None =>
  match (match t with ODeferred (OPostAdd p) => match is_paren p with Some x => as_reg x | None => None end | _ => None end) with
  | Some r => enc 3 r XNone []
  | None =>
  match (match t with ONeg p => match is_paren p with Some x => as_reg x | None => None end | _ => None end) with
  | Some r => enc 4 r XNone []
  | None =>
  match (match t with ODeferred (ONeg p) => match is_paren p with Some x => as_reg x | None => None end | _ => None end) with
  | Some r => enc 5 r XNone []
  | None =>
  match (match t with OCall (ODeferred l) r => match as_reg r with Some g => Some (g, l) | None => None end | _ => None end) with
  | Some (g, l) => enc 7 g (XIndex l) []
  | None =>
  match (match t with OCall l r => match as_reg r with Some g => Some (g, l) | None => None end | _ => None end) with
  | Some (g, l) => enc 6 g (XIndex l) []
  | None =>
  match (match t with ODeferred p => match is_paren p with Some x => as_reg x | None => None end | _ => None end) with
  | Some r => enc 7 r XZero ["implicit-index"%string]
  | None =>
  match t with
  | OImm x => enc 2 (Ok 7) (XImm x) []
  | ODeferred (OImm x) => enc 3 (Ok 7) (XAbs x) []
  | ODeferred x => enc 7 (Ok 7) (XRelDef x) []
  | _ => enc 6 (Ok 7) (XRel t) []
  end end end end end end end end end end end.
End Operand.

(* ------------------------------------------------------------------ 5. synonyms *)
Open Scope string_scope.
(* mnemonics documented as two names of one instruction (frozen list).
   callr / jmp is deliberately absent: both encode 0001xx, but the table writes them "0001ss" and "0001dd",
   so the pattern *strings* differ (the rewrite rule 'synonym' only swaps identical strings);
   that pair is covered by C01_synonyms. *)
Definition synonym_pairs : list (string * string) :=
  [ ("halt", "hlt"); ("clnzvc", "ccc"); ("senzvc", "scc"); ("med", "med6x");
    ("bcc", "bhis"); ("bcs", "blo"); ("trap", "sys"); ("mns", "msn"); ("mns", "ldsc");
    ("mpp", "sta0"); ("mrs", "stb0"); ("clrf", "clrd"); ("tstf", "tstd"); ("absf", "absd");
    ("negf", "negd"); ("mulf", "muld"); ("modf", "modd"); ("addf", "addd"); ("ldf", "ldd");
    ("subf", "subd"); ("cmpf", "cmpd"); ("stf", "std"); ("divf", "divd");
    ("stcfi", "stcfl"); ("stcfi", "stcdi"); ("stcfi", "stcdl"); ("stcfd", "stcdf");
    ("ldcif", "ldcid"); ("ldcif", "ldclf"); ("ldcif", "ldcld"); ("ldcfd", "ldcdf");
    ("ret", "return") ].
Close Scope string_scope.

(* instructions[name]: CaseInsensitiveDict filled from the dict literal in source order *)
Definition opcode_dict : cidict string :=
  of_items ascii_lower_str (map (fun p => (s2n (fst p), snd p)) opcode_table).

Definition pattern_of (mnemonic : str) : option string := getitem ascii_lower_str mnemonic opcode_dict.

Definition same_pattern (p : string * string) : bool :=
  match pattern_of (s2n (fst p)), pattern_of (s2n (snd p)) with
  | Some a, Some b => String.eqb a b
  | _, _ => false
  end.

(* ------------------------------------------------------------------ 6. word lists *)
(* not modelled here: '.word a, b' versus the implicit list is stated on Model/Directives
   (emit (DWordList vs) = emit (DMeta ".word" (plain vs)), Proofs/SpellingShared.v), the model C06 is about. *)
