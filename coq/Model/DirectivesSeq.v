(* Hand model, continued (no proofs): (a) character literals as operands of a numeric directive
   (types.CharLiteral.resolve inside the operand loop of Metacommand.compile_insn), (b) the running address
   of Compiler.compile_block over data directives and of metacommands.repeat over its body. *)
From Coq Require Import String List ZArith NArith Bool.
From Verif Require Import Base.Res Base.Bytes Gen.GenGetAsInt Gen.GenMeta Model.Directives.
From Verif Require Spec.DataSpec.
Import ListNotations.
Open Scope string_scope.
Open Scope list_scope.
Open Scope Z_scope.

Section Seq.
Variable enc : list N -> option (list Z).

(* ---- CharLiteral.resolve: diagnostics and the value handed to get_as_int ------------------------
   unencodable: "invalid-character", value 0; more than two bytes: "too-long-string" and the first two
   bytes all the same; the result is cached on the token, so a literal reports once *)
Definition lit_resolve (chars : list N) : list diag * Z :=
  match enc chars with
  | None => ([(E, "invalid-character")], 0)
  | Some bs =>
      (if (2 <? Z.of_nat (length bs)) then [(E, "too-long-string")] else [],
       nth 0 bs 0 + 256 * nth 1 bs 0)
  end.

Inductive operand := OVal (v : Z) | OLit (chars : list N).

Definition resolve (o : operand) : list diag * Z :=
  match o with OVal v => ([], v) | OLit cs => lit_resolve cs end.

Definition value_of (o : operand) : Z := snd (resolve o).

(* the diagnostics of the literals that are resolved before the operand loop stops (get_as_int raises at
   the first value that does not fit; the operands after it are never resolved) *)
Fixpoint reached (b : option Z) (u : bool) (ops : list operand) : list diag :=
  match ops with
  | [] => []
  | o :: rest =>
      fst (resolve o) ++
      match get_as_int b u None (value_of o) with
      | Ok _ => reached b u rest
      | _ => []
      end
  end.

(* a numeric directive of the table with one typed parameter, operands possibly literals (none with '#') *)
Definition emit_lit (name : string) (ops : list operand) (addr : Z) : out :=
  match find_meta name with
  | None => Crashed "unknown directive"
  | Some m =>
      if m_raw m then Crashed "raw directive outside the model" else
      if negb (count_ok m (Z.of_nat (length ops))) then wrong_count else
      match m_params m with
      | [p] =>
          match type_info (snd p) with
          | Some (b, u) =>
              after (reached b u ops) [] (emit_meta m addr (map (fun o => (false, value_of o)) ops))
          | None => Crashed "operand type outside the model"
          end
      | _ => Crashed "parameter list outside the model"
      end
  end.

Inductive xdirective := XD (d : directive) | XLit (name : string) (ops : list operand).

Definition emitx (d : xdirective) (addr : Z) : out :=
  match d with XD d => emit enc d addr | XLit name ops => emit_lit name ops addr end.

Definition announcedx (d : xdirective) : option Z :=
  match d with
  | XD d => announced d
  | XLit name ops => announced (DMeta name (map (fun o => (false, value_of o)) ops))
  end.

(* ---- compile_block: addr += chunk.length() -- the announced size when there is one (SizedDeferred),
   else the length of the bytes; the chunks are concatenated and evaluated in order, a RecoverableError
   ends the evaluation.  Result: the outcome and the address after the block. *)
Fixpoint block_run (ds : list xdirective) (addr : Z) : out * Z :=
  match ds with
  | [] => (Out [] [], addr)
  | d :: rest =>
      match emitx d addr with
      | Out dg bs =>
          let step := match announcedx d with Some sz => sz | None => Z.of_nat (length bs) end in
          let (o, a') := block_run rest (addr + step) in
          (after dg bs o, a')
      | Raised dg => (Raised dg, addr)
      | Crashed s => (Crashed s, addr)
      end
  end.

(* ---- metacommands.repeat: the body is compiled once per repetition, each at the address where the
   previous one ended.  Domain: the total number of repetitions compiled by one Compiler stays within
   MAX_REPETITIONS = 2^16; beyond it the code reports value-out-of-bounds and stops repeating (C08's
   subject, seeded/revert-C08-repeat-huge) -- that counter is not modelled here. *)
Fixpoint repeat_run (n : nat) (body : list xdirective) (addr : Z) : out * Z :=
  match n with
  | O => (Out [] [], addr)
  | S k =>
      match block_run body addr with
      | (Out dg bs, a') =>
          let (o, a'') := repeat_run k body a' in
          (after dg bs o, a'')
      | (o, a') => (o, a')
      end
  end.

Inductive xitem := XOne (d : xdirective) | XRepeat (n : Z) (body : list xdirective).

(* repetitions_count: uint -- a negative count is refused by get_as_int *)
Definition item_run (it : xitem) (addr : Z) : out * Z :=
  match it with
  | XOne d => block_run [d] addr
  | XRepeat n body =>
      match get_as_int None true None n with
      | Ok c => repeat_run (Z.to_nat c) body addr
      | Err ids => (Raised (map (pair E) ids), addr)
      | Crash s => (Crashed s, addr)
      | OutOfFuel => (Crashed "fuel", addr)
      end
  end.

Fixpoint items_run (its : list xitem) (addr : Z) : out * Z :=
  match its with
  | [] => (Out [] [], addr)
  | it :: rest =>
      match item_run it addr with
      | (Out dg bs, a') =>
          let (o, a'') := items_run rest a' in
          (after dg bs o, a'')
      | (o, a') => (o, a')
      end
  end.

End Seq.
