(* Model/AsmListing.v -- the listing of a program assembled by the reference assembler (Model/Asm.v):
   Model/ListingM.v's generate_listing applied to the FINAL symbol table f_syms of assemble_full.  No proofs here
   (Proofs/AsmListingP.v, Props/R_listing.v).

   The adapter.  Asm's table has keys KGlobal file name (the code's ".internal{file}." + name: labels and
   `name = expr` constants) and KLocal file scope name (".local{n}." + name).  ListingM reads a list of entries
   EOrd k name v / ELocal j name v and the map pm: prefix counter -> file name (internal_prefix_to_state reduced to
   state["filename"]).  Asm's programs carry file ids, not file names, so the names are a parameter
   [fname : nat -> string] (file id -> name; two inclusions of one file have two ids and the same name, and then
   share a block of the listing, as in the code).  [pm_of] lists the ids that own a symbol: a file without symbols
   has no block in the listing, so nothing else is ever looked up.
   The number of an ELocal entry is immaterial: generate_listing skips every key that does not start with
   ".internal".
   Order: f_syms is (labels, last laid out first) ++ (definitions in source order), which is not the insertion order
   of the code's dict; the order of the table only decides the order of the file blocks (first appearance) and
   nothing inside a block (sorted by (value, name), equal keys are equal lines) -- the theorems below do not
   depend on it, and the block order of the real listing is tied by C19's own correspondence stream. *)
From Coq Require Import ZArith List String Ascii Bool NArith.
From Verif Require Import Base.Res Spec.Listing Model.Asm.
From Verif Require Model.ListingM.
Import ListNotations.
Open Scope string_scope.
Open Scope list_scope.

Definition entry_of (kv : key * Z) : ListingM.entry :=
  match fst kv with
  | KGlobal f n => ListingM.EOrd (N.of_nat f) n (snd kv)
  | KLocal f sc n => ListingM.ELocal (N.of_nat sc) n (snd kv)
  end.

Definition entries_of (T : symtab) : list ListingM.entry := map entry_of T.

Definition pm_of (fname : nat -> string) (T : symtab) : list (N * string) :=
  flat_map (fun kv => match fst kv with KGlobal f _ => [(N.of_nat f, fname f)] | KLocal _ _ _ => [] end) T.

(* the ordinary symbols of the table, directly: (file name, name, value) of every KGlobal key, in table order *)
Definition ordinary_of (fname : nat -> string) (T : symtab) : list sym :=
  flat_map (fun kv => match fst kv with KGlobal f n => [mkSym (fname f) n (snd kv)] | KLocal _ _ _ => [] end) T.

(* the listing text of an assembled program *)
Definition asm_listing (fname : nat -> string) (f : full) : res string :=
  ListingM.generate_listing (ListingM.table_of (entries_of (f_syms f))) (pm_of fname (f_syms f)).

(* the ordinary labels of the placed program with the image offset of the byte following each: the number of image
   bytes of the statements placed before it, counted on the chunks -- not read off the label's value *)
Fixpoint placed_from (fname : nat -> string) (items : list item) (chunks : list (list Z)) (off : nat) : list (sym * nat) :=
  match items, chunks with
  | it :: r, c :: cr =>
      (match i_stmt it with
       | Label n => [(mkSym (fname (fst (i_scope it))) n (i_addr it), off)]
       | _ => []
       end) ++ placed_from fname r cr (off + Datatypes.length c)
  | _, _ => []
  end.

Definition asm_placed (fname : nat -> string) (f : full) : list (sym * nat) :=
  placed_from fname (f_items f) (f_chunks f) 0.

(* the rows (value, name) listed under a file name *)
Definition rows_under (file : string) (bs : list block) : list line :=
  flat_map (fun b => if String.eqb (fst b) file then snd b else []) bs.

(* the (value, name) rows a table owes to the file name [file] *)
Definition rows_owed (fname : nat -> string) (file : string) (T : symtab) : list line :=
  flat_map (fun kv => match fst kv with
                      | KGlobal g n => if String.eqb (fname g) file then [(snd kv, n)] else []
                      | KLocal _ _ _ => []
                      end) T.

