(* C03 -- lazily evaluated symbol definitions (M_lazy).  No proofs here.

   Mirrors: compiler.py compile_assignment (the name is bound to Deferred[int](lambda: value.resolve(state))),
   deferred.py Deferred.construct ("try now under try_compute, else keep the deferred and force it at the
   end"), not_ready(), Awaiting (a deferred that is awaited while being awaited => DeferredCycle),
   types.py Symbol._resolve (undefined while speculating => NotReadyError; undefined at the end =>
   'undefined-symbol'), operators.py resolve().

   [eval]     : the *final* evaluation: fuelled demand-driven recursion over the whole definition table with
                an awaiting set (cycle => Err recursive-definition).
   [ev true]  : "resolve now" against the table built so far: undefined / cycle => None (not ready).
   [lazy_run] : processes the statements in order (a definition is tried when met and its value kept if it
                was ready, like Deferred.construct returning the value itself), then forces what is left. *)
From Coq Require Import String List ZArith Bool.
From Verif Require Import Base.Res.
Import ListNotations.
Open Scope Z_scope.

Inductive binop := BAdd | BSub | BMul
                 | BOp.   (* a non-linear operator: '/' (floor division, zero divisor is an error) *)

Inductive expr :=
| Const (z : Z)
| Sym (n : string)
| Bin (o : binop) (a b : expr).

Notation Add := (Bin BAdd).
Notation Sub := (Bin BSub).
Notation Mul := (Bin BMul).
Notation Op := (Bin BOp).

Definition E_UNDEF : string := "undefined-symbol".
Definition E_REC : string := "recursive-definition".
Definition E_ARITH : string := "arithmetic-error".

Definition defs := list (string * expr).

Fixpoint lookup {A} (n : string) (T : list (string * A)) : option A :=
  match T with
  | [] => None
  | (k, d) :: r => if String.eqb n k then Some d else lookup n r
  end.

Definition mem (n : string) (l : list string) : bool := existsb (String.eqb n) l.

Definition op_div (a b : Z) : res Z := if b =? 0 then Err [E_ARITH] else Ok (a / b).

Definition apply_bin (o : binop) (x y : Z) : res Z :=
  match o with
  | BAdd => Ok (x + y)
  | BSub => Ok (x - y)
  | BMul => Ok (x * y)
  | BOp => op_div x y
  end.

(* final evaluation *)
Fixpoint eval (fuel : nat) (T : defs) (aw : list string) (e : expr) : res Z :=
  match fuel with
  | O => OutOfFuel
  | S f =>
    match e with
    | Const z => Ok z
    | Sym n =>
        if mem n aw then Err [E_REC]
        else match lookup n T with
             | None => Err [E_UNDEF]
             | Some d => eval f T (n :: aw) d
             end
    | Bin o a b =>
        do x <- eval f T aw a; do y <- eval f T aw b; apply_bin o x y
    end
  end.

(* table as the walk builds it: a definition whose value was ready when it was met holds the value *)
Inductive entry := Known (v : Z) | Pending (d : expr).
Definition ltable := list (string * entry).

(* spec = true: speculating (try_compute.depth > 0): None = NotReadyError / swallowed DeferredCycle *)
Fixpoint ev (spec : bool) (fuel : nat) (T : ltable) (aw : list string) (e : expr) : option (res Z) :=
  match fuel with
  | O => Some OutOfFuel
  | S f =>
    match e with
    | Const z => Some (Ok z)
    | Sym n =>
        if mem n aw then (if spec then None else Some (Err [E_REC]))
        else match lookup n T with
             | None => if spec then None else Some (Err [E_UNDEF])
             | Some (Known v) => Some (Ok v)
             | Some (Pending d) => ev spec f T (n :: aw) d
             end
    | Bin o a b =>
        match ev spec f T aw a with
        | None => None
        | Some (Ok x) =>
            match ev spec f T aw b with
            | None => None
            | Some (Ok y) => Some (apply_bin o x y)
            | Some r => Some r
            end
        | Some r => Some r
        end
    end
  end.

Inductive stmt := SDef (n : string) (d : expr) | SUse (e : expr).

Fixpoint defs_of (ss : list stmt) : defs :=
  match ss with
  | [] => []
  | SDef n d :: r => (n, d) :: defs_of r
  | SUse _ :: r => defs_of r
  end.

Fixpoint uses_of (ss : list stmt) : list expr :=
  match ss with
  | [] => []
  | SDef _ _ :: r => uses_of r
  | SUse e :: r => e :: uses_of r
  end.

(* a speculative evaluation that runs out of fuel is treated like "not ready" (the expression is deferred and forced
   at the end with the same fuel): benign, the final evaluation decides *)
Definition try_now (fuel : nat) (T : ltable) (e : expr) : option Z :=
  match ev true fuel T [] e with Some (Ok v) => Some v | _ => None end.

(* first pass: the walk.  Returns the final table and, per use, its value or the deferred expression *)
Fixpoint pass1 (fuel : nat) (ss : list stmt) (T : ltable) : ltable * list (Z + expr) :=
  match ss with
  | [] => (T, [])
  | SDef n d :: r =>
      let ent := match try_now fuel T d with Some v => Known v | None => Pending d end in
      pass1 fuel r (T ++ [(n, ent)])
  | SUse e :: r =>
      let u := match try_now fuel T e with Some v => inl v | None => inr e end in
      let '(T', us) := pass1 fuel r T in (T', u :: us)
  end.

Definition force (fuel : nat) (T : ltable) (u : Z + expr) : res Z :=
  match u with
  | inl v => Ok v
  | inr e => match ev false fuel T [] e with Some r => r | None => Crash "not-ready-outside-try" end
  end.

Definition lazy_run (fuel : nat) (ss : list stmt) : list (res Z) :=
  let '(T, us) := pass1 fuel ss [] in map (force fuel T) us.

Definition final_run (fuel : nat) (ss : list stmt) : list (res Z) :=
  map (eval fuel (defs_of ss) []) (uses_of ss).

(* fuel that is always enough: (number of definitions + 1) * (largest expression height + 1) + 1 *)
Fixpoint height (e : expr) : nat :=
  match e with
  | Const _ | Sym _ => 0
  | Bin _ a b => S (Nat.max (height a) (height b))
  end.

Fixpoint max_height (T : defs) : nat :=
  match T with [] => 0%nat | (_, d) :: r => Nat.max (height d) (max_height r) end.

Definition fuel_bound (T : defs) (e : expr) : nat :=
  (S (length T) * S (Nat.max (max_height T) (height e)) + 1)%nat.

Fixpoint stmts_height (ss : list stmt) : nat :=
  match ss with
  | [] => 0%nat
  | SDef _ d :: r => Nat.max (height d) (stmts_height r)
  | SUse e :: r => Nat.max (height e) (stmts_height r)
  end.

Definition run_bound (ss : list stmt) : nat :=
  (S (length (defs_of ss)) * S (stmts_height ss) + 1)%nat.

(* a chain  n0 = c0 ; n1 = n0 + c1 ; n2 = n1 + c2 ; ... *)
Fixpoint chain_from (prev : string) (l : list (string * Z)) : defs :=
  match l with
  | [] => []
  | (n, c) :: r => (n, Add (Sym prev) (Const c)) :: chain_from n r
  end.

Definition chain_defs (l : list (string * Z)) : defs :=
  match l with
  | [] => []
  | (n, c) :: r => (n, Const c) :: chain_from n r
  end.

Definition zsum (l : list Z) : Z := fold_right Z.add 0 l.

(* result equivalence up to the identity of the reported error *)
Definition res_equiv (r1 r2 : res Z) : Prop :=
  match r1, r2 with
  | Ok a, Ok b => a = b
  | Err _, Err _ => True
  | _, _ => False
  end.

(* the C03 transformation (DESIGN 3.6): move the definition at position i to position j *)
Fixpoint remove_nth {A} (i : nat) (l : list A) : list A :=
  match l, i with
  | [], _ => []
  | _ :: r, O => r
  | x :: r, S k => x :: remove_nth k r
  end.

Definition insert_at {A} (j : nat) (x : A) (l : list A) : list A := firstn j l ++ x :: skipn j l.

Definition move_def (ss : list stmt) (i j : nat) : list stmt :=
  match nth_error ss i with
  | Some (SDef n d) => insert_at j (SDef n d) (remove_nth i ss)
  | _ => ss
  end.

(* At link time the code forces every symbol, used or not ("Resolve all symbols, in case some have not been
   used", compile_and_link_files): an unused definition that is undefined, cyclic or divides by zero fails the build.
   [close ss] makes that explicit: one more use per definition, in definition order, after everything else. *)
Definition forced (ss : list stmt) : list stmt := map (fun nd => SUse (Sym (fst nd))) (defs_of ss).
Definition close (ss : list stmt) : list stmt := ss ++ forced ss.

Definition is_fail (r : res Z) : bool := match r with Ok _ => false | _ => true end.

(* success / failure of the whole build *)
Definition build_fails (fuel : nat) (ss : list stmt) : bool := existsb is_fail (lazy_run fuel (close ss)).
