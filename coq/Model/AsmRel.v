(* Model/AsmRel.v -- counts spelled through LATER labels whose dependence on the not-yet-known sizes cancels
   (practice program 13colours: `.repeat (FREE-CODE)/2 { ... }` with CODE and FREE further down).

   pdpy11 computes addresses as linear polynomials in the link base and the lengths of the chunks that are not
   known yet (deferred.LinearPolynomial, Model/Poly.v); `FREE - CODE` is then a number although neither label is.
   Here: a symbolic pre-pass over the top level of the program gives every global label of the program file an
   address polynomial  base + known bytes + sum of unknowns,  one unknown per statement whose size is not fixed by
   its form (fills that depend on the address, counts that depend on labels, repeats, includes, skips).  A .repeat
   count that evaluates, over these polynomials, to a CONSTANT is replaced by that literal; likewise a link base
   spelled through labels (`.link 1000 + e - s`), with the base itself as one more unknown; then Model/Asm.v
   assembles the rewritten program, and the result is kept only if every replaced count expression, evaluated
   with the FINAL symbol table (Spec.Arith.eval), gives the literal that was used (XUnsup "count-guard" otherwise).
   No proofs here. *)
From Coq Require Import ZArith List String Ascii Bool NArith.
From Verif Require Import Base.Res Spec.Arith Model.Asm Model.AsmT.
From Verif Require Model.Poly.
Import ListNotations.
Notation length := Datatypes.length.
Open Scope string_scope.
Open Scope list_scope.
Open Scope Z_scope.

Notation poly := Poly.poly.

Section Rel.
Variable enc : list N -> option (list Z).

(* constants: definitions evaluable without any label *)
Definition const_val (D : list defn) (K : list key) (X : list (string * nat)) (e : expr) : option Z :=
  match xeval enc D K X [] [] (S (length D)) [] (0%nat, None) None e with XOk v => Some v | _ => None end.

Fixpoint plookup (s : string) (l : list (string * poly)) : option poly :=
  match l with [] => None | (k, p) :: r => if String.eqb s k then Some p else plookup s r end.

(* an expression over label polynomials; None: not linear / not known *)
Fixpoint peval (D : list defn) (K : list key) (X : list (string * nat)) (labs : list (string * poly)) (e : expr) : option poly :=
  match e with
  | Lit l => match lit_value (cenc enc) l with Ok v => Some (Poly.pconst v) | _ => None end
  | Sym s => match plookup s labs with
             | Some p => Some p
             | None => match const_val D K X (Sym s) with Some v => Some (Poly.pconst v) | None => None end
             end
  | Dot => None
  | Group _ x => peval D K X labs x
  | Un u x =>
      match peval D K X labs x with
      | Some p => match u with
                  | UPlus => Some p
                  | UNeg => Some (Poly.neg p)
                  | _ => if Poly.is_const p then match sem_un u (Poly.const p) with Ok v => Some (Poly.pconst v) | _ => None end else None
                  end
      | None => None
      end
  | Bin o l r =>
      match peval D K X labs l, peval D K X labs r with
      | Some a, Some b =>
          match o with
          | BAdd => Some (Poly.add a b)
          | BSub => Some (Poly.sub a b)
          | _ => if Poly.is_const a && Poly.is_const b
                 then match sem_bin o (Poly.const a) (Poly.const b) with Ok v => Some (Poly.pconst v) | _ => None end
                 else None
          end
      | _, _ => None
      end
  end.

(* the size of a top-level statement when it does not depend on anything unknown *)
Definition fixed_size (D : list defn) (K : list key) (X : list (string * nat)) (addr : poly) (s : stmt) : option Z :=
  match sized_size s with
  | Some (XOk n) => Some n
  | Some _ => None
  | None =>
      match s with
      | Label _ | LocalLabel _ | Assign _ _ | Link _ | NoOp | End | Extern _ | ExternAll => Some 0
      | Ascii _ _ | Rad50 _ | Insert _ =>
          match emit_leaf enc (fun _ => XOk 0) 0 s with XOk bs => Some (zlen bs) | _ => None end
      | Blkb e | Blkw e =>
          match const_val D K X e with
          | Some v => match emit_leaf enc (fun _ => XOk v) 0 s with XOk bs => Some (zlen bs) | _ => None end
          | None => None
          end
      | Even | Odd =>
          if Poly.is_const addr then match emit_leaf enc (fun _ => XOk 0) (Poly.const addr) s with XOk bs => Some (zlen bs) | _ => None end
          else None
      | Align e =>
          if Poly.is_const addr then
            match const_val D K X e with
            | Some v => match emit_leaf enc (fun _ => XOk v) (Poly.const addr) s with XOk bs => Some (zlen bs) | _ => None end
            | None => None
            end
          else None
      | _ => None
      end
  end.

(* pass A: address polynomials of the global labels of the program file; variable k+1 = the k-th unknown size *)
Fixpoint label_polys (D : list defn) (K : list key) (X : list (string * nat)) (addr : poly) (next : Z) (l : list stmt)
  : list (string * poly) :=
  match l with
  | [] => []
  | s :: r =>
      let here := match s with Label n => [(n, addr)] | _ => [] end in
      match fixed_size D K X addr s with
      | Some n => here ++ label_polys D K X (Poly.addc addr n) next r
      | None => here ++ label_polys D K X (Poly.add addr (Poly.pvar next)) (next + 1) r
      end
  end.

Definition zlit (v : Z) : expr := Lit (LNum (v <? 0) SBareOct false false (Z.abs_N v)).

(* counts of the top-level repeats that are constants over the label polynomials; `.`-free ones only *)
Fixpoint resolve_list (D : list defn) (K : list key) (X : list (string * nat)) (labs : list (string * poly)) (l : list stmt)
  : list stmt * list (expr * Z) :=
  match l with
  | [] => ([], [])
  | Repeat ce body :: r =>
      let '(r', ch) := resolve_list D K X labs r in
      match (if nodot ce then peval D K X labs ce else None) with
      | Some p => if Poly.is_const p && (0 <=? Poly.const p)
                  then (Repeat (zlit (Poly.const p)) body :: r', (ce, Poly.const p) :: ch)
                  else (Repeat ce body :: r', ch)
      | None => (Repeat ce body :: r', ch)
      end
  | s :: r => let '(r', ch) := resolve_list D K X labs r in (s :: r', ch)
  end.

(* the first base-fixing statement of the program file gets the expression b *)
Fixpoint top_base (l : list stmt) : option expr :=
  match l with
  | [] => None
  | Link e :: _ => Some e
  | Skip e :: _ => Some e
  | Include false _ _ :: _ => None          (* a linked file first: it may fix the base; not handled here *)
  | _ :: r => top_base r
  end.
Fixpoint set_base (b : expr) (l : list stmt) : list stmt :=
  match l with
  | [] => []
  | Link _ :: r => Link b :: r
  | Skip _ :: r => Skip b :: r
  | Include false f body :: r => Include false f body :: r
  | x :: r => x :: set_base b r
  end.

(* a link base spelled through labels (`.link 1000 + e - s`): with the base as unknown 0, the expression must come
   out as a constant -- the base and every unknown size cancel *)
Definition resolve_base (D : list defn) (K : list key) (X : list (string * nat)) (q : list stmt) : option (expr * Z) :=
  match top_base q with
  | Some e =>
      if nodot e then
        match peval D K X (label_polys D K X (Poly.pvar 0) 1 q) e with
        | Some p => if Poly.is_const p then Some (e, Poly.const p) else None
        | None => None
        end
      else None
  | None => None
  end.

Definition resolve (p : program) : program * list (expr * Z) :=
  let q := cut_end p in
  let D := collect_defs 0 0 q in
  let K := collect_keys 0 0 q in
  let X := all_exports D K (collect_exports 0 q) in
  match find_base enc D K X (S (length D)) q with
  | XOk base => resolve_list D K X (label_polys D K X (Poly.pconst base) 1 q) q
  | _ =>
      match resolve_base D K X q with
      | Some (e, bv) =>
          let q' := set_base (zlit bv) q in
          match find_base enc D K X (S (length D)) q' with
          | XOk base =>
              let '(q'', ch) := resolve_list D K X (label_polys D K X (Poly.pconst base) 1 q') q' in (q'', (e, bv) :: ch)
          | _ => (q, [])
          end
      | None => (q, [])
      end
  end.

Definition check_counts (f : full) (ch : list (expr * Z)) : bool :=
  forallb (fun c => match Arith.eval (cenc enc) (sym_of (f_exports f) (f_syms f) (0%nat, None)) 0 (fst c) with
                    | Ok v => v =? snd c | _ => false end) ch.

Definition assemble_rel_full (p : program) : xres full :=
  let '(p', ch) := resolve p in
  xdo f <- assemble_full enc p';
  if check_counts f ch then XOk f else XUnsup "count-guard".

Definition assemble_rel (p : program) : xres (Z * list Z * symtab) :=
  xdo f <- assemble_rel_full p; XOk (f_base f, List.concat (f_chunks f), f_syms f).

End Rel.
