(* Model of the module-level state of pdpy11 that survives between assemblies (C18), over the
   steps regenerated from deferred.py / reports.py (Gen/GenGState.v, Gen/GenReports.v).  No proofs.

   A [prog] is an arbitrary nesting of the three context managers
       with try_compute: ...      with Awaiting(d): ...      with handle_reports(fn): ...
   whose bodies may finish, `return`, or raise any exception at any point; it also contains the
   places where the state is *read* (not_ready, emit_report, is_awaiting) and BaseDeferred.wait, which
   reads and fills try_compute.not_ready_yet while speculating.  [eval] is Python's `with` statement:
   __enter__ may raise (then __exit__ is not called), __exit__ is called on every other way out
   with the exception (or None), it may raise itself or return a truthy value to swallow. *)
From Coq Require Import String List NArith ZArith Bool.
From Verif Require Import Gen.GenReports Gen.GenGState.
Import ListNotations.

(* the object passed to handle_reports: a plain callable, or a context manager whose __exit__
   returns a value / raises *)
Inductive obj_exit := ObjNone | ObjReturns (b : bool) | ObjRaises (e : exn).

Inductive cm :=
| CTry                                   (* with try_compute *)
| CAwait (d : N)                         (* with Awaiting(d) : d identifies the deferred object *)
| CHandle (h : N) (ox : obj_exit).       (* with handle_reports(fn) : h identifies the new instance *)

Inductive prog :=
| PEnd                                   (* the block finishes *)
| PReturn                                (* `return` (leaves every enclosing `with` of the function) *)
| PRaise (e : exn)                       (* an exception is raised here *)
| PNotReady (rest : prog)                (* deferred.not_ready() *)
| PReport (p : priority) (rest : prog)   (* reports.emit_report(p, ...) *)
| PIfAwaiting (d : N) (pt pe : prog)     (* if d.is_awaiting: pt else: pe   (the flag is read by deferred.py) *)
| PRemember (d : N) (rest : prog)        (* deferred.remember_cycle(d) *)
| PCall (body rest : prog)               (* a function call: `return` inside ends the call only *)
| PWait (d : N) (body rest : prog)       (* v = d.wait() ; rest  -- BaseDeferred.wait with [body] as d._wait():
                                            refused at once while speculating if d is in not_ready_yet; otherwise
                                            `with Awaiting(d)`, and a NotReadyError of the body is recorded there *)
| PWith (c : cm) (body rest : prog).     (* with c: body ; rest *)

(* module-level state + the per-instance latch (is_error_condition lives on the instance) *)
Record mstate := mk_mstate { g : gstate; latches : N -> bool }.

Inductive outcome := ONormal | OReturn | ORaise (e : exn).

Definition set_latch (h : N) (b : bool) (l : N -> bool) : N -> bool :=
  fun x => if N.eqb x h then b else l x.

Inductive enter_result := EnterOk (s : mstate) | EnterRaise (e : exn) (s : mstate).

Definition lift_enter (r : step_result) (l : N -> bool) : enter_result :=
  match r with SOk g' => EnterOk (mk_mstate g' l) | SRaise e g' => EnterRaise e (mk_mstate g' l) end.

(* evaluating the with item and calling __enter__ *)
Definition enter (c : cm) (s : mstate) : enter_result :=
  match c with
  | CTry => lift_enter (try_enter (g s)) (latches s)
  | CAwait d => lift_enter (await_enter d (g s)) (latches s)
  | CHandle h _ => (* handle_reports.__init__: is_error_condition = False; then __enter__ *)
                   lift_enter (hr_enter h (g s)) (set_latch h false (latches s))
  end.

(* calling __exit__ with the exception type (or None) *)
Definition exit_cm (c : cm) (exc : option exn) (s : mstate) : exit_action * mstate :=
  match c with
  | CTry => match try_exit (g s) with
            | SOk g' => (XReturn (try_exit_swallows exc), mk_mstate g' (latches s))
            | SRaise e g' => (XRaise e, mk_mstate g' (latches s))
            end
  | CAwait d => match await_exit d exc (g s) with
                | SOk g' => (XReturn false, mk_mstate g' (latches s))   (* returns None *)
                | SRaise e g' => (XRaise e, mk_mstate g' (latches s))
                end
  | CHandle h ox => match hr_exit_pop h (g s) with
                    | SRaise e g' => (XRaise e, mk_mstate g' (latches s))
                    | SOk g' => let s' := mk_mstate g' (latches s) in
                                match ox with
                                | ObjRaises e => (XRaise e, s')
                                | ObjNone => (hr_exit_decision (latches s h) false exc, s')
                                | ObjReturns b => (hr_exit_decision (latches s h) b exc, s')
                                end
                    end
  end.

Fixpoint eval (p : prog) (s : mstate) : outcome * mstate :=
  match p with
  | PEnd => (ONormal, s)
  | PReturn => (OReturn, s)
  | PRaise e => (ORaise e, s)
  | PNotReady rest => if not_ready_raises (g s) then (ORaise ENotReady, s) else eval rest s
  | PReport p rest =>
      match top_handler (g s) with
      | None => (ORaise (EOther 0), s)                      (* Exception("Unhandled report") *)
      | Some h => let s' := if emit_sets_latch p then mk_mstate (g s) (set_latch h true (latches s)) else s in
                  match emit_raises p with
                  | Some e => (ORaise e, s')
                  | None => eval rest s'
                  end
      end
  | PIfAwaiting d pt pe => if flags (g s) d then eval pt s else eval pe s
  | PRemember d rest => eval rest (mk_mstate (remember_cycle d (g s)) (latches s))
  | PCall body rest =>
      match eval body s with
      | (ORaise e, s') => (ORaise e, s')
      | (_, s') => eval rest s'
      end
  | PWait d body rest =>
      if wait_blocked d (g s) then (ORaise ENotReady, s) else
      let (o1, t) :=                                        (* try: with Awaiting(d): ... *)
        match await_enter d (g s) with
        | SRaise e g' => (ORaise e, mk_mstate g' (latches s))
        | SOk g1 =>
            let (o, s2) := eval body (mk_mstate g1 (latches s)) in
            let s2' := match o with
                       | ORaise ENotReady => mk_mstate (wait_record d (g s2)) (latches s2)   (* except NotReadyError: ... ; raise *)
                       | _ => s2
                       end in
            match await_exit d (match o with ORaise e => Some e | _ => None end) (g s2') with
            | SRaise e' g3 => (ORaise e', mk_mstate g3 (latches s2'))
            | SOk g3 => (o, mk_mstate g3 (latches s2'))
            end
        end in
      match o1 with
      | ORaise EDeferredCycle =>                            (* except DeferredCycle: remember_cycle(self); raise *)
          (ORaise EDeferredCycle, mk_mstate (remember_cycle d (g t)) (latches t))
      | ORaise e => (ORaise e, t)
      | _ => eval rest t                                    (* `return self._wait()`: the call returns, the caller goes on *)
      end
  | PWith c body rest =>
      match enter c s with
      | EnterRaise e s' => (ORaise e, s')
      | EnterOk s1 =>
          let (o, s2) := eval body s1 in
          let exc := match o with ORaise e => Some e | _ => None end in
          let (act, s3) := exit_cm c exc s2 in
          match act with
          | XRaise e' => (ORaise e', s3)
          | XReturn sw =>
              match o with
              | ONormal => eval rest s3
              | OReturn => (OReturn, s3)
              | ORaise e => if sw then eval rest s3 else (ORaise e, s3)
              end
          end
      end
  end.

(* a history: programs run one after the other in the same process, whatever their outcome *)
Fixpoint run_all (hist : list prog) (s : mstate) : mstate :=
  match hist with
  | [] => s
  | p :: rest => run_all rest (snd (eval p s))
  end.

(* the exceptions a program can raise "by itself" *)
Fixpoint raised_in (p : prog) : list exn :=
  match p with
  | PEnd | PReturn => []
  | PRaise e => [e]
  | PNotReady r | PReport _ r | PRemember _ r => raised_in r
  | PIfAwaiting _ a b | PCall a b | PWait _ a b => raised_in a ++ raised_in b
  | PWith c b r => (match c with CHandle _ (ObjRaises e) => [e] | _ => [] end) ++ raised_in b ++ raised_in r
  end.

Definition initial_gstate : gstate := mk_gstate 0 [] (fun _ => false) [] [] [] [].
