(* Model of pdpy11.deferred.LinearPolynomial: sum of coeff * variable + constant_term.

   The Python object keeps `coeffs` as a dict (insertion ordered) from variables (Promise / Deferred
   objects) to non-zero ints.  The constructor accepts either a dict or a list of pairs; a list is
   accumulated into a dict (`self.coeffs[key] += value`, first occurrence fixes the position), and in
   both cases zero coefficients are removed afterwards.  [mk] is that constructor; every operation
   below builds its result through [mk], exactly where the code calls `LinearPolynomial[int](...)`.

   Variables are named by integers (the harness numbers the Promise objects).  No proofs here. *)
From Coq Require Import List ZArith Bool.
Import ListNotations.
Open Scope Z_scope.

Definition var := Z.
(* the link base Promise "LA" is variable 0 wherever a model needs it *)
Definition LA : var := 0.

Record poly := Poly { coeffs : list (var * Z); const : Z }.

(* dict[key] += value  (new key appended at the end) *)
Fixpoint dict_add (d : list (var * Z)) (k : var) (v : Z) : list (var * Z) :=
  match d with
  | [] => [(k, v)]
  | (k', v') :: r => if k' =? k then (k', v' + v) :: r else (k', v') :: dict_add r k v
  end.

Definition dict_of (l : list (var * Z)) : list (var * Z) :=
  fold_left (fun d kv => dict_add d (fst kv) (snd kv)) l [].

Definition drop_zero (d : list (var * Z)) : list (var * Z) :=
  filter (fun kv => negb (snd kv =? 0)) d.

(* LinearPolynomial[int](coeffs, constant_term) *)
Definition mk (l : list (var * Z)) (c : Z) : poly := Poly (drop_zero (dict_of l)) c.

Definition pconst (c : Z) : poly := mk [] c.
(* LinearPolynomial[int]({x: 1}) *)
Definition pvar (x : var) : poly := mk [(x, 1)] 0.

(* LinearPolynomial.__add__ with a LinearPolynomial on the right *)
Definition add (p q : poly) : poly := mk (coeffs p ++ coeffs q) (const p + const q).
(* ... with an int on the right (also __radd__) *)
Definition addc (p : poly) (k : Z) : poly := mk (coeffs p) (const p + k).
(* __neg__ *)
Definition neg (p : poly) : poly := mk (map (fun kv => (fst kv, - snd kv)) (coeffs p)) (- const p).
(* __mul__ / __rmul__ with an int *)
Definition scale (k : Z) (p : poly) : poly := mk (map (fun kv => (fst kv, snd kv * k)) (coeffs p)) (const p * k).
(* BaseDeferred.__sub__ : self + (-rhs) *)
Definition sub (p q : poly) : poly := add p (neg q).

Definition lsum (l : list (var * Z)) (rho : var -> Z) : Z :=
  fold_right (fun kv acc => snd kv * rho (fst kv) + acc) 0 l.
Definition eval (p : poly) (rho : var -> Z) : Z := lsum (coeffs p) rho + const p.

Definition lcoef (x : var) (l : list (var * Z)) : Z :=
  fold_right (fun kv acc => if fst kv =? x then snd kv + acc else acc) 0 l.
Definition coeff (x : var) (p : poly) : Z := lcoef x (coeffs p).

(* get_current_best_estimate() returns the int exactly when there is no variable left *)
Definition is_const (p : poly) : bool := match coeffs p with [] => true | _ => false end.

Definition vars (p : poly) : list var := map fst (coeffs p).

(* ---------------------------------------------------------------------------------------------
   LinearPolynomial._wait / _substitute_known_variables (pdpy11/deferred.py).

   What the variables are at the moment of the call is a [world]:
     settled  x = Some v : x.wait() returns v (a Promise that has been settled, a Deferred whose
                           function has run); v is a polynomial (an int is a constant polynomial)
                           or another deferred object (VVar: "a value defined as another value")
     awaiting x          : x.is_awaiting -- x is being computed right now, x.wait() is DeferredCycle
     latent   x = Some v : x is a Deferred that cannot be computed while speculating (its function
                           calls not_ready(), e.g. a symbol exported by another file) but yields v
                           when it is waited for at depth 0, and is settled from then on *)
Inductive value := VPoly (p : poly) | VVar (y : var).

Record world := World { settled : list (var * value); awaiting : list var; latent : list (var * value) }.

Definition memv (x : var) (l : list var) : bool := existsb (Z.eqb x) l.
Fixpoint lookupv (s : list (var * value)) (x : var) : option value :=
  match s with
  | [] => None
  | (k, v) :: r => if k =? x then Some v else lookupv r x
  end.

(* key.wait() inside `with try_compute` *)
Definition try_wait (w : world) (k : var) : option value :=
  if memv k (awaiting w) then None else lookupv (settled w) k.

Inductive endp := EVar (y : var) | EPoly (p : poly).

(* the `while` loop of expand(): follow a chain of values defined as other values; stop at one that
   is being computed or is already being expanded.  Result: (computed, where the chain stopped). *)
Fixpoint follow (fuel : nat) (w : world) (exp : list var) (v : value) : bool * endp :=
  match v with
  | VPoly p => (true, EPoly p)
  | VVar y =>
      if memv y (awaiting w) || memv y exp then (true, EVar y)
      else match fuel with
           | O => (true, EVar y)
           | S f => match lookupv (settled w) y with
                    | None => (false, EVar y)
                    | Some v' => follow f w (y :: exp) v'
                    end
           end
  end.

(* key.get_current_best_estimate() of where the chain stopped (one step, as in the code) *)
Definition estimate_end (w : world) (e : endp) : endp :=
  match e with
  | EPoly p => EPoly p
  | EVar y => match lookupv (settled w) y with
              | Some (VPoly p) => EPoly p
              | Some (VVar z) => EVar z
              | None => EVar y
              end
  end.

(* expand(key, value): (terms appended to new_coeffs, added to the constant, not_ready_keys) *)
Fixpoint expand (fuel : nat) (w : world) (exp : list var) (k : var) (c : Z)
  : list (var * Z) * Z * list var :=
  if memv k exp then ([(k, c)], 0, []) else
  match fuel with
  | O => ([(k, c)], 0, [])
  | S f =>
      let '(computed, e) := match try_wait w k with
                            | None => (false, EVar k)
                            | Some v => follow f w exp v
                            end in
      let nr := if computed then [] else match e with EVar y => [y] | EPoly _ => [k] end in
      match estimate_end w e with
      | EVar z => ([(z, c)], 0, nr)
      | EPoly p =>
          let '(ts, c0, nr') :=
            (fix go (l : list (var * Z)) : list (var * Z) * Z * list var :=
               match l with
               | [] => ([], 0, [])
               | (k1, v1) :: r =>
                   let '(t1, c1, n1) := expand f w (k :: exp) k1 (v1 * c) in
                   let '(t2, c2, n2) := go r in
                   (t1 ++ t2, c1 + c2, n1 ++ n2)
               end) (coeffs p) in
          (ts, c0 + const p * c, nr ++ nr')
      end
  end.

(* The code has no bound on the length of a chain or on the nesting of substituted polynomials; each
   step of either consumes a different settled variable, so 3 + (number of settled variables) steps
   are enough.  Whether a run would nevertheless hit the end of the fuel is computed separately
   ([substitute_oof]) and is a distinct outcome for the harness, never a normal-looking value. *)
Definition sub_fuel (w : world) : nat := 3 + length (settled w).

Fixpoint follow_oof (fuel : nat) (w : world) (exp : list var) (v : value) : bool :=
  match v with
  | VPoly _ => false
  | VVar y =>
      if memv y (awaiting w) || memv y exp then false
      else match fuel with
           | O => true
           | S f => match lookupv (settled w) y with
                    | None => false
                    | Some v' => follow_oof f w (y :: exp) v'
                    end
           end
  end.

Fixpoint expand_oof (fuel : nat) (w : world) (exp : list var) (k : var) : bool :=
  if memv k exp then false else
  match fuel with
  | O => true
  | S f =>
      let oof1 := match try_wait w k with None => false | Some v => follow_oof f w exp v end in
      let '(computed, e) := match try_wait w k with
                            | None => (false, EVar k)
                            | Some v => follow f w exp v
                            end in
      oof1 || match estimate_end w e with
              | EVar _ => false
              | EPoly p => existsb (fun kv => expand_oof f w (k :: exp) (fst kv)) (coeffs p)
              end
  end.

(* the loop `for key, value in self.coeffs.items(): expand(key, value)` *)
Fixpoint subst_terms (w : world) (l : list (var * Z)) : list (var * Z) * Z * list var :=
  match l with
  | [] => ([], 0, [])
  | (k1, v1) :: r =>
      let '(t1, c1, n1) := expand (sub_fuel w) w [] k1 v1 in
      let '(t2, c2, n2) := subst_terms w r in
      (t1 ++ t2, c1 + c2, n1 ++ n2)
  end.

(* _substitute_known_variables: the new polynomial and not_ready_keys *)
Definition substitute (w : world) (p : poly) : poly * list var :=
  let '(ts, c0, nr) := subst_terms w (coeffs p) in (mk ts (const p + c0), nr).

Definition substitute_oof (w : world) (p : poly) : bool :=
  existsb (fun kv => expand_oof (sub_fuel w) w [] (fst kv)) (coeffs p).

(* key.wait() outside try_compute (speculating = false) or under an outer one (speculating = true):
   None = it raises (DeferredCycle, NotReadyError, or the plain "not ready" exception) *)
Definition real_wait (speculating : bool) (w : world) (k : var) : option (value * world) :=
  if memv k (awaiting w) then None else
  match lookupv (settled w) k with
  | Some v => Some (v, w)
  | None => if speculating then None else
            match lookupv (latent w) k with
            | Some v => Some (v, World ((k, v) :: settled w) (awaiting w) (latent w))
            | None => None
            end
  end.

(* `for key in not_ready_keys: if not key.is_awaiting and key in self.coeffs: key.wait()` at depth 0
   (a variable that has cancelled out in the meantime is not needed at all) *)
Fixpoint wait_all (w : world) (cur : list var) (ks : list var) : world * bool :=
  match ks with
  | [] => (w, true)
  | k :: r => if memv k (awaiting w) || negb (memv k cur) then wait_all w cur r
              else match real_wait false w k with
                   | Some (_, w') => wait_all w' cur r
                   | None => (w, false)      (* it raises; what was settled before stays settled *)
                   end
  end.

Fixpoint list_eqbv (a b : list var) : bool :=
  match a, b with
  | [], [] => true
  | x :: xs, y :: ys => (x =? y) && list_eqbv xs ys
  | _, _ => false
  end.

(* the `while not_ready_keys and rounds < 100` loop (fuel = 100 rounds, then it falls through to the
   evaluation that reports the cycle): (polynomial, world, raised, model out of fuel) *)
Fixpoint settle_loop (fuel : nat) (w : world) (p : poly) (nr : list var) : poly * world * bool * bool :=
  match fuel with
  | O => (p, w, false, false)
  | S f =>
      let '(w', ok) := wait_all w (vars p) nr in
      if negb ok then (p, w', true, false) else
      let oof := substitute_oof w' p in
      let '(p', nr') := substitute w' p in
      if oof then (p', w', false, true) else
      if list_eqbv nr' nr then (p', w', false, false) else
      match nr' with [] => (p', w', false, false) | _ => settle_loop f w' p' nr' end
  end.

(* sum(key.wait() * value ...) + constant_term, when every term is a number *)
Fixpoint sum_terms (speculating : bool) (w : world) (l : list (var * Z)) (acc : Z) : option Z * world :=
  match l with
  | [] => (Some acc, w)
  | (k, c) :: r =>
      match real_wait speculating w k with
      | None => (None, w)
      | Some (VPoly q, w') => if is_const q then sum_terms speculating w' r (acc + const q * c)
                              else (None, snd (sum_terms speculating w' r 0))
      | Some (VVar _, w') => (None, snd (sum_terms speculating w' r 0))
      end
  end.

(* the one-level substitution of the code before commit 0fa6448 (kept for Props/C12_findings.v) *)
(* every variable whose wait() succeeds is replaced
   by its value (an int, or a polynomial whose terms are spliced in, scaled); the others stay.
   sigma x = None      : x.wait() raised NotReadyError / DeferredCycle inside try_compute
   sigma x = Some q    : x.wait() returned q (an int is [pconst]) *)
Fixpoint wait_terms (sigma : var -> option poly) (l : list (var * Z)) : list (var * Z) * Z :=
  match l with
  | [] => ([], 0)
  | (k, v) :: r =>
      let (ts, c) := wait_terms sigma r in
      match sigma k with
      | None => ((k, v) :: ts, c)
      | Some q => (map (fun kv => (fst kv, snd kv * v)) (coeffs q) ++ ts, const q * v + c)
      end
  end.
Definition wait_step (sigma : var -> option poly) (p : poly) : poly :=
  let (ts, c) := wait_terms sigma (coeffs p) in mk ts (const p + c).
(* While speculating (try_compute.depth > 0) _wait gives up at the first variable that is not ready,
   before anything is written back; otherwise the substituted polynomial replaces the old one. *)
Definition wait_mutation (speculating : bool) (sigma : var -> option poly) (p : poly) : poly :=
  if speculating && negb (forallb (fun kv => match sigma (fst kv) with Some _ => true | None => false end) (coeffs p))
  then p else wait_step sigma p.
Definition all_ready (sigma : var -> option poly) (p : poly) : bool :=
  forallb (fun kv => match sigma (fst kv) with Some _ => true | None => false end) (coeffs p).

Definition upd (rho : var -> Z) (x : var) (d : Z) : var -> Z := fun y => if y =? x then d else rho y.

(* the invariant of every value built by [mk]: distinct variables, no zero coefficient *)
Definition nonzero_coeffs (p : poly) : Prop := Forall (fun kv => snd kv <> 0) (coeffs p).
Definition wf (p : poly) : Prop := NoDup (vars p) /\ nonzero_coeffs p.

Definition poly_eqb (p q : poly) : bool :=
  (const p =? const q) &&
  (fix go (a b : list (var * Z)) : bool :=
     match a, b with
     | [], [] => true
     | (k, v) :: a', (k', v') :: b' => (k =? k') && (v =? v') && go a' b'
     | _, _ => false
     end) (coeffs p) (coeffs q).
