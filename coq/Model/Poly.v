(* Model of pdpy11.deferred.LinearPolynomial: sum of coeff * variable + constant_term.

   The Python object keeps `coeffs` as a dict (insertion ordered) from variables (Promise / Deferred
   objects) to non-zero ints.  The constructor accepts either a dict or a list of pairs; a list is
   accumulated into a dict (`self.coeffs[key] += value`, first occurrence fixes the position), and in
   both cases zero coefficients are removed afterwards.  [mk] is that constructor; every operation
   below builds its result through [mk], exactly where the code calls `LinearPolynomial[int](...)`.

   Variables are named by integers (the harness numbers the Promise objects).  No proofs here. *)
From Coq Require Import List ZArith Bool.
Import ListNotations.
Open Scope Z_scope.

Definition var := Z.
(* the link base Promise "LA" is variable 0 wherever a model needs it *)
Definition LA : var := 0.

Record poly := Poly { coeffs : list (var * Z); const : Z }.

(* dict[key] += value  (new key appended at the end) *)
Fixpoint dict_add (d : list (var * Z)) (k : var) (v : Z) : list (var * Z) :=
  match d with
  | [] => [(k, v)]
  | (k', v') :: r => if k' =? k then (k', v' + v) :: r else (k', v') :: dict_add r k v
  end.

Definition dict_of (l : list (var * Z)) : list (var * Z) :=
  fold_left (fun d kv => dict_add d (fst kv) (snd kv)) l [].

Definition drop_zero (d : list (var * Z)) : list (var * Z) :=
  filter (fun kv => negb (snd kv =? 0)) d.

(* LinearPolynomial[int](coeffs, constant_term) *)
Definition mk (l : list (var * Z)) (c : Z) : poly := Poly (drop_zero (dict_of l)) c.

Definition pconst (c : Z) : poly := mk [] c.
(* LinearPolynomial[int]({x: 1}) *)
Definition pvar (x : var) : poly := mk [(x, 1)] 0.

(* LinearPolynomial.__add__ with a LinearPolynomial on the right *)
Definition add (p q : poly) : poly := mk (coeffs p ++ coeffs q) (const p + const q).
(* ... with an int on the right (also __radd__) *)
Definition addc (p : poly) (k : Z) : poly := mk (coeffs p) (const p + k).
(* __neg__ *)
Definition neg (p : poly) : poly := mk (map (fun kv => (fst kv, - snd kv)) (coeffs p)) (- const p).
(* __mul__ / __rmul__ with an int *)
Definition scale (k : Z) (p : poly) : poly := mk (map (fun kv => (fst kv, snd kv * k)) (coeffs p)) (const p * k).
(* BaseDeferred.__sub__ : self + (-rhs) *)
Definition sub (p q : poly) : poly := add p (neg q).

Definition lsum (l : list (var * Z)) (rho : var -> Z) : Z :=
  fold_right (fun kv acc => snd kv * rho (fst kv) + acc) 0 l.
Definition eval (p : poly) (rho : var -> Z) : Z := lsum (coeffs p) rho + const p.

Definition lcoef (x : var) (l : list (var * Z)) : Z :=
  fold_right (fun kv acc => if fst kv =? x then snd kv + acc else acc) 0 l.
Definition coeff (x : var) (p : poly) : Z := lcoef x (coeffs p).

(* get_current_best_estimate() returns the int exactly when there is no variable left *)
Definition is_const (p : poly) : bool := match coeffs p with [] => true | _ => false end.

Definition vars (p : poly) : list var := map fst (coeffs p).

(* LinearPolynomial._wait, the substitution part: every variable whose wait() succeeds is replaced
   by its value (an int, or a polynomial whose terms are spliced in, scaled); the others stay.
   sigma x = None      : x.wait() raised NotReadyError / DeferredCycle inside try_compute
   sigma x = Some q    : x.wait() returned q (an int is [pconst]) *)
Fixpoint wait_terms (sigma : var -> option poly) (l : list (var * Z)) : list (var * Z) * Z :=
  match l with
  | [] => ([], 0)
  | (k, v) :: r =>
      let (ts, c) := wait_terms sigma r in
      match sigma k with
      | None => ((k, v) :: ts, c)
      | Some q => (map (fun kv => (fst kv, snd kv * v)) (coeffs q) ++ ts, const q * v + c)
      end
  end.
Definition wait_step (sigma : var -> option poly) (p : poly) : poly :=
  let (ts, c) := wait_terms sigma (coeffs p) in mk ts (const p + c).
(* While speculating (try_compute.depth > 0) _wait gives up at the first variable that is not ready,
   before anything is written back; otherwise the substituted polynomial replaces the old one. *)
Definition wait_mutation (speculating : bool) (sigma : var -> option poly) (p : poly) : poly :=
  if speculating && negb (forallb (fun kv => match sigma (fst kv) with Some _ => true | None => false end) (coeffs p))
  then p else wait_step sigma p.
Definition all_ready (sigma : var -> option poly) (p : poly) : bool :=
  forallb (fun kv => match sigma (fst kv) with Some _ => true | None => false end) (coeffs p).

Definition upd (rho : var -> Z) (x : var) (d : Z) : var -> Z := fun y => if y =? x then d else rho y.

(* the invariant of every value built by [mk]: distinct variables, no zero coefficient *)
Definition nonzero_coeffs (p : poly) : Prop := Forall (fun kv => snd kv <> 0) (coeffs p).
Definition wf (p : poly) : Prop := NoDup (vars p) /\ nonzero_coeffs p.

Definition poly_eqb (p q : poly) : bool :=
  (const p =? const q) &&
  (fix go (a b : list (var * Z)) : bool :=
     match a, b with
     | [], [] => true
     | (k, v) :: a', (k', v') :: b' => (k =? k') && (v =? v') && go a' b'
     | _, _ => false
     end) (coeffs p) (coeffs q).
