(* Model/Structure.v -- the structural directives of a program as statement lists (C16):
   linking, '.include', 'insert_file', '.end', '.once'.

   Mirrors compiler.py: compile_and_link_files (files in order, running address),
   compile_file (times_file_compiled[filename] += 1, then the file's block),
   compile_include (the included file is compiled at the address of the '.include' statement and the
   includer continues after it), compile_block ('.end' / a triggered '.once' raise
   CompilerStopIteration, caught by the block of the file being compiled);
   metacommands.py: insert_file (the bytes of the file), byte (int8 operands; no operand = one zero),
   end, once (stop iff times_file_compiled[own filename] > 1), include.

   Every other statement is abstract: [emit p a] are the bytes of plain statement [p] placed at
   address [a] (each statement sees its own '.').  Symbol tables are not part of this model: it is
   about programs whose names resolve the same way before and after the transformation (files that
   share no private or local names; included files pasted only when they define nothing).  That
   side condition is what the metamorphic sweep on the real code covers.
   [times] is the log of compile_file calls (newest first); the counter of a file is its number of
   occurrences.  Fuel = include depth: the code refuses an '.include' nested deeper than MAX_INCLUDE_DEPTH = 32 with
   'recursive-include' (a file that includes itself without '.once'); run with fuel 33 the model runs
   out of fuel exactly there, and the Run file reads OutOfFuel as that refusal.  No proofs here. *)
From Coq Require Import ZArith List Bool Arith String.
From Verif Require Import Base.Res.
From Verif Require Gen.GenGetAsInt.
Import ListNotations.
Open Scope Z_scope.

Definition fid := nat.

Definition Zlen (bs : list Z) : Z := Z.of_nat (List.length bs).

Fixpoint count (t : list fid) (j : fid) : nat :=
  match t with
  | [] => O
  | x :: rest => if Nat.eqb x j then S (count rest j) else count rest j
  end.

Section Structure.
  Variable P : Type.
  Variable emit : P -> Z -> res (list Z).

  Inductive stmt :=
  | Plain (p : P)
  | Byte (vs : list Z)         (* .byte v1, v2, ...  with numeric operands *)
  | Insert (bs : list Z)       (* insert_file "x" where file x holds the bytes bs *)
  | Include (f : fid)          (* .include "f" *)
  | End                        (* .end *)
  | Once.                      (* .once *)

  (* metacommands.byte *)
  Definition byte_data (vs : list Z) : res (list Z) :=
    match vs with
    | [] => Ok [0]
    | _ => mapM (GenGetAsInt.get_as_int (Some 8) false None) vs
    end.

  Definition result := res (list Z * list fid).

  Section Level.
    Variable rec_file : fid -> Z -> list fid -> result.     (* compile_file one include level deeper *)

    (* compile_block of file [me] *)
    Fixpoint block (me : fid) (ss : list stmt) (a : Z) (t : list fid) : result :=
      match ss with
      | [] => Ok ([], t)
      | End :: _ => Ok ([], t)
      | Once :: rest => if Nat.ltb 1 (count t me) then Ok ([], t) else block me rest a t
      | Plain p :: rest =>
          do bs <- emit p a;
          do r <- block me rest (a + Zlen bs) t;
          Ok (bs ++ fst r, snd r)
      | Byte vs :: rest =>
          do bs <- byte_data vs;
          do r <- block me rest (a + Zlen bs) t;
          Ok (bs ++ fst r, snd r)
      | Insert bs :: rest =>
          do r <- block me rest (a + Zlen bs) t;
          Ok (bs ++ fst r, snd r)
      | Include g :: rest =>
          do x <- rec_file g a t;
          do r <- block me rest (a + Zlen (fst x)) (snd x);
          Ok (fst x ++ fst r, snd r)
      end.
  End Level.

  (* compile_file / compile_include *)
  Fixpoint compile_file (fs : fid -> list stmt) (fuel : nat) (f : fid) (a : Z) (t : list fid) : result :=
    match fuel with
    | O => OutOfFuel
    | S k => block (compile_file fs k) f (fs f) a (f :: t)
    end.

  (* compile_and_link_files *)
  Fixpoint link (fs : fid -> list stmt) (fuel : nat) (ids : list fid) (a : Z) (t : list fid) : result :=
    match ids with
    | [] => Ok ([], t)
    | f :: rest =>
        do x <- compile_file fs fuel f a t;
        do r <- link fs fuel rest (a + Zlen (fst x)) (snd x);
        Ok (fst x ++ fst r, snd r)
    end.

  Definition image (r : result) : res (list Z) := rmap fst r.

  (* statements that can end a file early *)
  Definition stops (s : stmt) : bool := match s with End | Once => true | _ => false end.
  Definition no_stop (ss : list stmt) : bool := forallb (fun s => negb (stops s)) ss.

  Definition includes (ss : list stmt) (g : fid) : bool :=
    existsb (fun s => match s with Include h => Nat.eqb h g | _ => false end) ss.
End Structure.

(* ---- insert_file resolves its operand relative to the file that contains it ------------------ *)
(* Source statements: [SInsertAt name] is 'insert_file "name"' as written; [blob me name] are the bytes
   of the file that this spelling resolves to FROM FILE [me] (devices.resolve_relative_path on the
   directory of the including file): the file system is keyed by (including file, path as written),
   never by the spelling alone. *)
Section Source.
  Variable P : Type.
  Inductive sstmt :=
  | SStmt (s : stmt P)
  | SInsertAt (name : nat).
  Variable blob : fid -> nat -> list Z.
  Definition elab (me : fid) (s : sstmt) : stmt P :=
    match s with SStmt s0 => s0 | SInsertAt nm => Insert P (blob me nm) end.
  Definition elab_table (src : fid -> list sstmt) : fid -> list (stmt P) := fun f => map (elab f) (src f).
  Definition upd (src : fid -> list sstmt) (g : fid) (l : list sstmt) : fid -> list sstmt :=
    fun f => if Nat.eqb f g then l else src f.
End Source.
Arguments SStmt {P} s.
Arguments SInsertAt {P} name.

Arguments Plain {P} p.
Arguments Byte {P} vs.
Arguments Insert {P} bs.
Arguments Include {P} f.
Arguments End {P}.
Arguments Once {P}.

(* ------------------------------------------------------------------------------------------ *)
(* a concrete instance used by the correspondence sweep *)
Inductive plain :=
| PDotWord (k : Z)         (* .word . + k *)
| PEven                    (* .even *)
| PBlkb (n : Z).           (* .blkb n *)

Definition le16 (v : Z) : list Z := [v mod 256; (v / 256) mod 256].

Definition emit_plain (p : plain) (a : Z) : res (list Z) :=
  match p with
  | PDotWord k =>
      if Z.eqb (a mod 2) 1 then Err ["odd-address"%string]
      else do w <- GenGetAsInt.get_as_int (Some 16) false None (a + k); Ok (le16 w)
  | PEven => Ok (if Z.eqb (a mod 2) 1 then [0] else [])
  | PBlkb n => do w <- GenGetAsInt.get_as_int (Some 16) true None n; Ok (repeat 0 (Z.to_nat w))
  end.
