(* Model of operators.wrap_impure on integer operands (C05): the result of an impure operator
   (/ % << >>, whose diagnostics must not be repeated) is cached on its token; the same token can be
   evaluated again with other operands ('.' in the next copy of a .repeat body).  The two switches come
   from Gen/GenOperators.v (translated from the source of wrap_impure).  No proofs here. *)
From Coq Require Import List ZArith Bool.
From Verif Require Import Gen.GenOperators.
Import ListNotations.

(* expr.value (None before the first evaluation) and expr.value_args *)
Definition token_cache := option (Z * list Z).

(* len(value_args) == len(args) and all(a is b or a == b ...) on ints *)
Fixpoint args_match (a b : list Z) : bool :=
  match a, b with
  | [], [] => true
  | x :: a', y :: b' => Z.eqb x y && args_match a' b'
  | _, _ => false
  end.

Definition wrap_with (keyed records : bool) (invoke : list Z -> Z) (c : token_cache) (args : list Z)
  : Z * token_cache :=
  let miss := let v := invoke args in
              (v, Some (v, if records then args else match c with Some (_, va) => va | None => [] end)) in
  match c with
  | Some (v, va) => if (if keyed then args_match va args else true) then (v, c) else miss
  | None => miss
  end.

Definition wrap_impure := wrap_with wrap_impure_keyed wrap_impure_records_args.

(* successive evaluations of one token *)
Fixpoint run_with (keyed records : bool) (invoke : list Z -> Z) (c : token_cache) (argss : list (list Z)) : list Z :=
  match argss with
  | [] => []
  | args :: rest =>
      let r := wrap_with keyed records invoke c args in
      fst r :: run_with keyed records invoke (snd r) rest
  end.

Definition run := run_with wrap_impure_keyed wrap_impure_records_args.
