(* Hand model of the data directives of pdpy11 (metacommands.py byte/word/dword/ascii_impl/ascii_/asciz,
   Metacommand.compile_insn of metacommand_impl.py, Compiler.compile_word_list of compiler.py,
   string_escape/quoted_string of parser.py) over the regenerated Gen/GenGetAsInt.v and Gen/GenMeta.v.
   No proofs here.  Python partiality is explicit ([Crashed]); a diagnostic never disappears. *)
From Coq Require Import String List ZArith NArith Bool.
From Verif Require Import Base.Res Base.Bytes Gen.GenGetAsInt Gen.GenMeta Gen.GenBkTable Model.BkCodec.
From Verif Require Spec.DataSpec.
Import ListNotations.
Open Scope string_scope.
Open Scope list_scope.
Open Scope Z_scope.

Notation chunk := DataSpec.chunk.
Notation Str := DataSpec.Str.
Notation Code := DataSpec.Code.

(* ---- what evaluating one directive's bytes does ------------------------------------------------
   Out ds bs   : the deferred function returned [bs]; [ds] are the diagnostics reported on the way,
                 in order (an error among them fails the assembly, the bytes are then never written)
   Raised ds   : RecoverableError propagated out of the deferred function (always after an error report)
   Crashed s   : a Python exception that is not a report *)
Inductive sev := E | W.
Definition diag := (sev * string)%type.
Inductive out := Out (ds : list diag) (bs : list Z) | Raised (ds : list diag) | Crashed (site : string).

Definition is_error (d : diag) : bool := match fst d with E => true | W => false end.
Definition errors (ds : list diag) : list diag := filter is_error ds.

(* diagnostics [ds] were reported and bytes [pre] produced before [o] *)
Definition after (ds : list diag) (pre : list Z) (o : out) : out :=
  match o with
  | Out ds' bs => Out (ds ++ ds') (pre ++ bs)
  | Raised ds' => Raised (ds ++ ds')
  | Crashed s => Crashed s
  end.

Definition of_res (r : res (list Z)) : out :=
  match r with
  | Ok bs => Out [] bs
  | Err ids => Out (map (pair E) ids) []     (* Gen one-liner: reported, then b"" returned *)
  | Crash s => Crashed s
  | OutOfFuel => Crashed "fuel"
  end.

(* ---- Metacommand.compile_insn ---------------------------------------------------------------
   Operands are evaluated numeric expressions (never a code block: the code-block branches of compile_insn
   are outside this model). *)
Definition find_meta (name : string) : option meta :=
  find (fun m => String.eqb (m_name m) name || existsb (String.eqb name) (m_aliases m)) meta_table.

Definition count_ok (m : meta) (n : Z) : bool :=
  (m_min m <=? n) && match m_max m with None => true | Some mx => n <=? mx end.

(* self.operand_info[min(i, len(self.operand_info) - 1)]["hint"].__name__ ; None = IndexError *)
Fixpoint hint_at (params : list (string * string)) (i : nat) : option string :=
  match params with
  | [] => None
  | [p] => Some (snd p)
  | p :: rest => match i with O => Some (snd p) | S j => hint_at rest j end
  end.

(* the loop over operands in fn(): get_as_int(..., bitness, unsigned) with no default; the first
   refusal raises and the remaining operands are not looked at *)
Fixpoint cook (params : list (string * string)) (i : nat) (ops : list Z) : res (list Z) :=
  match ops with
  | [] => Ok []
  | v :: rest =>
      match hint_at params i with
      | None => Crash "IndexError: operand_info"
      | Some h =>
          match type_info h with
          | None => Crash "operand type outside the model"
          | Some (b, u) =>
              do c <- get_as_int b u None v;
              do cs <- cook params (S i) rest;
              Ok (c :: cs)
          end
      end
  end.

(* b"".join(struct.pack(fmt, x) for x in xs) *)
Definition pack_all (pack : Z -> res (list Z)) (vs : list Z) : res (list Z) :=
  rmap (@concat Z) (mapM pack vs).

Definition byte_body (vs : list Z) : out :=
  match vs with
  | [] => Out [(W, "implicit-operand")] [0]
  | _ => of_res (pack_all pack_B vs)
  end.

(* the odd-address check shared by .word, .dword and word lists: diagnostics and prefix byte *)
Definition odd_prefix (addr : Z) : res (list diag * list Z) :=
  do m <- py_mod addr 2;
  Ok (if m =? 1 then ([(E, "odd-address")], [0]) else ([], [])).

Definition word_body (addr : Z) (vs : list Z) : out :=
  match odd_prefix addr with
  | Ok (ds, pre) =>
      match vs with
      | [] => Out (ds ++ [(W, "implicit-operand")]) (pre ++ [0; 0])
      | _ => after ds pre (of_res (pack_all pack_H vs))
      end
  | Err _ => Crashed "unexpected"
  | Crash s => Crashed s
  | OutOfFuel => Crashed "fuel"
  end.

(* encode_i32: struct.pack("<H", value >> 16) + struct.pack("<H", value & 0xffff) *)
Definition encode_i32 (v : Z) : res (list Z) :=
  do hi <- pack_H (Z.shiftr v 16);
  do lo <- pack_H (Z.land v 65535);
  Ok (hi ++ lo).

Definition dword_body (addr : Z) (vs : list Z) : out :=
  match odd_prefix addr with
  | Ok (ds, pre) =>
      match vs with
      | [] => Out (ds ++ [(W, "implicit-operand")]) (pre ++ [0; 0; 0; 0])
      | _ => after ds pre (of_res (pack_all encode_i32 vs))
      end
  | Err _ => Crashed "unexpected"
  | Crash s => Crashed s
  | OutOfFuel => Crashed "fuel"
  end.

(* self.fn(state, *cooked_operands): the one-liners come from Gen; a wrong number of arguments
   (excluded by the operand-count check) would be a TypeError *)
Definition body (name : string) (addr : Z) (vs : list Z) : out :=
  if String.eqb name ".byte" then byte_body vs else
  if String.eqb name ".word" then word_body addr vs else
  if String.eqb name ".dword" then dword_body addr vs else
  if String.eqb name ".blkb" then match vs with [n] => of_res (body_blkb addr n) | _ => Crashed "TypeError: arguments" end else
  if String.eqb name ".blkw" then match vs with [n] => of_res (body_blkw addr n) | _ => Crashed "TypeError: arguments" end else
  if String.eqb name ".even" then match vs with [] => of_res (body_even addr) | _ => Crashed "TypeError: arguments" end else
  if String.eqb name ".odd" then match vs with [] => of_res (body_odd addr) | _ => Crashed "TypeError: arguments" end else
  if String.eqb name ".align" then match vs with [c] => of_res (body_align addr c) | _ => Crashed "TypeError: arguments" end else
  Crashed "directive outside the model".

Definition wrong_count : out := Raised [(E, "wrong-meta-operands")].

(* operands: (written with a leading '#', evaluated value) *)
Definition hash_diags (ops : list (bool * Z)) : list diag :=
  flat_map (fun o : bool * Z => if fst o then [(E, "excess-hash")] else []) ops.

Definition emit_meta (m : meta) (addr : Z) (ops : list (bool * Z)) : out :=
  if negb (count_ok m (Z.of_nat (length ops))) then wrong_count else
  after (hash_diags ops) []
    (match cook (m_params m) 0 (map snd ops) with
     | Ok vs => body (m_name m) addr vs
     | Err ids => Raised (map (pair E) ids)
     | Crash s => Crashed s
     | OutOfFuel => Crashed "fuel"
     end).

(* ---- .ascii / .asciz (raw=True: the operand is not cooked) ---------------------------------- *)
Section Ascii.
(* str.encode(output_charset): None = UnicodeEncodeError *)
Variable enc : list N -> option (list Z).

Fixpoint ascii_impl (cs : list chunk) : out :=
  match cs with
  | [] => Out [] []
  | Code v :: rest =>
      let '(b, u, d) := site_ascii_impl in
      match get_as_int_raw b u d v with
      | GaiRet r => if byte_ok r then after [] [r] (ascii_impl rest) else Crashed "ValueError: bytearray.append"
      | GaiErrRet id r => if byte_ok r then after [(E, id)] [r] (ascii_impl rest) else Crashed "ValueError: bytearray.append"
      | GaiErrRaise id => Raised [(E, id)]
      | GaiCrash s => Crashed s
      end
  | Str s :: rest =>
      match enc s with
      | Some bs => after [] bs (ascii_impl rest)
      | None => after [(E, "invalid-character")] [] (ascii_impl rest)
      end
  end.

(* try: return self.fn(...) except RecoverableError: return b"" -- asciz's "+ b'\x00'" is skipped too *)
Definition ascii_body (z : bool) (cs : list chunk) : out :=
  match ascii_impl cs with
  | Out ds bs => Out ds (bs ++ (if z then [0] else []))
  | Raised ds => Out ds []
  | Crashed s => Crashed s
  end.

(* ---- Compiler.compile_word_list ------------------------------------------------------------- *)
Definition word_list (addr : Z) (ws : list Z) : out :=
  let '(b, u, d) := site_word_list in
  match mapM (get_as_int b u d) ws with
  | Ok vs =>
      match odd_prefix addr with
      | Ok (ds, pre) => after ds pre (of_res (pack_all pack_H vs))
      | Err _ => Crashed "unexpected"
      | Crash s => Crashed s
      | OutOfFuel => Crashed "fuel"
      end
  | Err ids => Raised (map (pair E) ids)
  | Crash s => Crashed s
  | OutOfFuel => Crashed "fuel"
  end.

(* ---- a data directive as the compiler sees it ------------------------------------------------- *)
Inductive directive :=
| DMeta (name : string) (ops : list (bool * Z))      (* a non-raw metacommand of the table, by name or alias *)
| DAscii (z : bool) (ops : list (list chunk))        (* .ascii / .asciz with its operands (one is expected) *)
| DWordList (ws : list Z).                           (* implicit word list *)

Definition emit (d : directive) (addr : Z) : out :=
  match d with
  | DMeta name ops =>
      match find_meta name with
      | Some m => if m_raw m then Crashed "raw directive outside DMeta" else emit_meta m addr ops
      | None => Crashed "unknown directive"
      end
  | DAscii z ops =>
      match find_meta (if z then ".asciz" else ".ascii") with
      | Some m =>
          if negb (count_ok m (Z.of_nat (length ops))) then wrong_count else
          match ops with
          | [cs] => ascii_body z cs
          | _ => Crashed "TypeError: arguments"
          end
      | None => Crashed "unknown directive"
      end
  | DWordList ws => word_list addr ws
  end.

End Ascii.

(* the size the compiler commits the following addresses from, before the bytes exist:
   SizedDeferred(size) when the decorator has size=, the word list's 2 * len; None = plain Deferred *)
Definition announced (d : directive) : option Z :=
  match d with
  | DMeta name ops =>
      match find_meta name with
      | Some m => match m_size m with Some f => Some (f (Z.of_nat (length ops))) | None => None end
      | None => None
      end
  | DAscii z ops =>
      match find_meta (if z then ".asciz" else ".ascii") with
      | Some m => match m_size m with Some f => Some (f (Z.of_nat (length ops))) | None => None end
      | None => None
      end
  | DWordList ws => Some (2 * Z.of_nat (length ws))
  end.

(* the bk output charset (C14's model) as an [enc] *)
Definition bk_enc (s : list N) : option (list Z) :=
  match bk_encode s with
  | EncOk bs => Some (map Z.of_N bs)
  | EncError _ _ => None
  end.

(* ---- quoted_string / string_escape of parser.py ------------------------------------------------
   [scan q st acc ds text]: the text after the opening quote [q], read one character at a time.
   States mirror the control flow of string_escape:
     SNorm      between characters of the string
     SBack      a backslash was read
     SXws       backslash x was read; Context.skip_whitespace is running (the regex is created with the
                default skip_whitespace_before=True), which also skips ';' comments to the end of line
     SXcomment  inside such a comment
     SXhex ch d one hex digit (character ch, value d) was read
   When the two hex digits are not there, "invalid-escape" is reported, the escape yields nothing and
   reading resumes at the first character that is neither blank nor comment (the position the failed
   regex left behind): that character -- and the lone hex digit before it -- are ordinary characters.
   Results: the string, the identifiers reported, the text after the closing quote; or the critical
   "unterminated-string" (after the identifiers reported so far); [ScanCrash] is kept for a Python
   exception (none is reachable in the current source). *)
Inductive sstate := SNorm | SBack | SXws | SXcomment | SXhex (ch d : N).
Inductive scan_out :=
| ScanOk (value : list N) (ds : list string) (rest : list N)
| ScanUnterminated (ds : list string)
| ScanCrash (site : string) (ds : list string).

Open Scope N_scope.

(* characters c with chr(c).strip() == "" *)
Definition py_space (c : N) : bool :=
  ((9 <=? c) && (c <=? 13)) || ((28 <=? c) && (c <=? 32)) || (c =? 133) || (c =? 160) || (c =? 5760) ||
  ((8192 <=? c) && (c <=? 8202)) || (c =? 8232) || (c =? 8233) || (c =? 8239) || (c =? 8287) || (c =? 12288).

Definition hex_val (c : N) : option N :=
  if (48 <=? c) && (c <=? 57) then Some (c - 48) else
  if (97 <=? c) && (c <=? 102) then Some (c - 87) else
  if (65 <=? c) && (c <=? 70) then Some (c - 55) else None.

(* the only characters whose str.lower() is one of the recognised escape letters n r t x *)
Definition esc_lower (c : N) : N :=
  if (c =? 78) || (c =? 82) || (c =? 84) || (c =? 88) then c + 32 else c.

Definition bad_escape : list string := ["invalid-escape"%string].

Fixpoint scan (q : N) (st : sstate) (acc : list N) (ds : list string) (text : list N) : scan_out :=
  match text with
  | [] =>
      match st with
      | SNorm => ScanUnterminated ds
      | _ => ScanUnterminated (ds ++ bad_escape)
      end
  | c :: rest =>
      (* one step of the quoted_string loop on an ordinary position *)
      let norm acc ds :=
        if c =? q then ScanOk (rev acc) ds rest
        else if c =? 92 then scan q SBack acc ds rest
        else scan q SNorm (c :: acc) ds rest in
      match st with
      | SNorm => norm acc ds
      | SBack =>
          let l := esc_lower c in
          if l =? 110 then scan q SNorm (10 :: acc) ds rest
          else if l =? 114 then scan q SNorm (13 :: acc) ds rest
          else if l =? 116 then scan q SNorm (9 :: acc) ds rest
          else if (l =? 92) || (l =? 34) || (l =? 39) || (l =? 47) then scan q SNorm (l :: acc) ds rest
          else if l =? 10 then scan q SNorm acc ds rest
          else if l =? 120 then scan q SXws acc ds rest
          else scan q SNorm acc (ds ++ bad_escape) rest
      | SXws =>
          if py_space c then scan q SXws acc ds rest
          else if c =? 59 then scan q SXcomment acc ds rest
          else match hex_val c with
               | Some d => scan q (SXhex c d) acc ds rest
               | None => norm acc (ds ++ bad_escape)
               end
      | SXcomment =>
          if c =? 10 then scan q SXws acc ds rest else scan q SXcomment acc ds rest
      | SXhex ch d =>
          match hex_val c with
          | Some e => scan q SNorm (16 * d + e :: acc) ds rest
          | None => norm (ch :: acc) (ds ++ bad_escape)
          end
      end
  end.

(* quoted_string on the text following the opening quote *)
Definition unescape (q : N) (text : list N) : scan_out := scan q SNorm [] [] text.
