(* Model/ClassifyEmbed.v -- the forgetful map from the operand tree of Model/TreeCache.v (C16) to the
   operand tree of Model/Classify.v (C01), so that the two models of hoist() / the isinstance cascade of
   RegisterModeOperandStub.encode cannot drift apart unnoticed (Proofs/ClassifyEmbedP.v, Props/C01_classify_embed.v).

   [forget] drops what the cascade never reads: operator caches (value_args / value), Number.representation,
   is_valid_label, invalid_base8, reported_invalid_base8, CharLiteral.evaluated_value and the characters.
   It is None exactly on
     - an operator whose string is not one of operators.py's signatures for its kind (TreeCache operators are
       strings, Classify's are enumerated: "$" as an Infix, "?" ... cannot be expressed);
     - a Sym whose name is not its own lower-casing: TreeCache stores names already lower-cased (regp does
       not call lower), Classify stores the name as written and lower-cases when asked; Sym "R1" would be
       a non-register in TreeCache and a register in Classify, so it has no image.
   Paren: opening_parenthesis "(" is round, anything else is not.
   Classify's TOther is the image of Chr only.
   No proofs here. *)
From Coq Require Import ZArith List String Ascii Bool.
From Verif Require Import Base.Res.
From Verif Require Model.Classify Model.TreeCache.
Import ListNotations.
Open Scope string_scope.
Open Scope list_scope.
Open Scope Z_scope.

Module C := Verif.Model.Classify.
Module T := Verif.Model.TreeCache.

Definition infix_of (op : string) : option C.infix_op :=
  if String.eqb op "*" then Some C.IMul else if String.eqb op "/" then Some C.IDiv else
  if String.eqb op "%" then Some C.IMod else if String.eqb op "+" then Some C.IAdd else
  if String.eqb op "-" then Some C.ISub else if String.eqb op "<<" then Some C.IShl else
  if String.eqb op ">>" then Some C.IShr else if String.eqb op "_" then Some C.ILsh else
  if String.eqb op "&" then Some C.IAnd else if String.eqb op "^" then Some C.IXor else
  if String.eqb op "|" then Some C.IOr else if String.eqb op "!" then Some C.IOr2 else None.

Definition prefix_of (op : string) : option C.prefix_op :=
  if String.eqb op "@" then Some C.PDef else if String.eqb op "#" then Some C.PImm else
  if String.eqb op "-" then Some C.PNeg else if String.eqb op "%" then Some C.PPct else
  if String.eqb op "+" then Some C.PPos else if String.eqb op "~" then Some C.PInv else
  if String.eqb op "^c" then Some C.PInv2 else None.

Definition postfix_of (op : string) : option C.postfix_op :=
  if String.eqb op "+" then Some C.QAdd else if String.eqb op "-" then Some C.QSub else None.

Definition omap {A B} (f : A -> B) (o : option A) : option B :=
  match o with Some a => Some (f a) | None => None end.
Definition omap2 {A B D} (f : A -> B -> D) (o : option A) (p : option B) : option D :=
  match o, p with Some a, Some b => Some (f a b) | _, _ => None end.
Definition obind {A B} (o : option A) (f : A -> option B) : option B :=
  match o with Some a => f a | None => None end.

Fixpoint forget (t : T.tree) : option C.optree :=
  match t with
  | T.Num _ v _ _ _ => Some (C.TNum v)
  | T.Chr _ _ => Some (C.TOther "CharLiteral")
  | T.Sym n nl => if String.eqb (C.lower n) n then Some (C.TSym n nl) else None
  | T.Dot => Some C.TDot
  | T.Paren b e => omap (C.TParen (String.eqb b "(")) (forget e)
  | T.Infix op l r _ => obind (infix_of op) (fun o => omap2 (C.TInfix o) (forget l) (forget r))
  | T.Prefix op e _ => obind (prefix_of op) (fun o => omap (C.TPrefix o) (forget e))
  | T.Postfix op e _ => obind (postfix_of op) (fun o => omap (C.TPostfix o) (forget e))
  | T.Call l r _ => omap2 C.TCall (forget l) (forget r)
  end.

(* ------------------------------------------------------------------------------------------ *)
(* the two classification results brought to one type: 6-bit field (mode | register), how the extension word
   is obtained (TreeCache's ekind), the kept expression as a Classify tree *)
Definition view := option (Z * T.ekind * option C.optree).

(* TreeCache: the kept subtree is [get path whole] (whole = the hoisted offset copy, else the operand);
   EZero is the literal b"\0\0" of '@(rN)', which Classify writes as the kept expression TNum 0 *)
Definition tc_view (t : T.tree) : view :=
  let '(mode, kind, path, hoisted) := T.classify t in
  let whole := match hoisted with Some off => off | None => t end in
  match kind with
  | T.ENone => Some (mode, T.ENone, None)
  | T.EZero => Some (mode, T.EZero, Some (C.TNum 0))
  | k => omap (fun e => (mode, k, Some e)) (forget (T.get path whole))
  end.

Definition implicit_w (w : list string) : bool :=
  match w with [s] => String.eqb s "implicit-index" | _ => false end.

(* Classify: which ekind a form (with its warnings) stands for *)
Definition kind_of (o : C.oform) (w : list string) : T.ekind :=
  match o with
  | C.FIndexDef _ _ => if implicit_w w then T.EZero else T.EGai
  | C.FIndex _ _ | C.FImm _ | C.FAbs _ => T.EGai
  | C.FRel _ | C.FRelDef _ => T.ERel
  | _ => T.ENone
  end.

(* None when the register is '%e' (no 6-bit field is known before evaluation) *)
Definition cl_view (oc : C.outcome) : view :=
  omap (fun f => (f, kind_of (fst oc) (snd oc), C.expr_of (fst oc))) (C.field_of (fst oc)).

Definition cl_view_res (r : res C.outcome) : view :=
  match r with Ok oc => cl_view oc | _ => None end.
