(* Hand model of pdpy11/bk_wav.py over the regenerated tables of Gen/GenBkWav.v, and of the
   bk_wav / bk_turbo_wav entries of formats.file_formats.  No proofs here. *)
From Coq Require Import String Ascii List ZArith NArith Bool.
From Verif Require Import Base.Res Gen.GenBkWav Model.Formats.
Import ListNotations.
Open Scope list_scope.
Open Scope Z_scope.

(* ------------------------------------------------------------------ translate_audio_levels *)
Fixpoint assoc_ascii (c : ascii) (m : list (ascii * Z)) : option Z :=
  match m with
  | [] => None
  | (k, v) :: r => if Ascii.eqb k c then Some v else assoc_ascii c r
  end.

Definition level_of (c : ascii) : res Z :=
  match assoc_ascii c level_map with Some v => Ok v | None => Crash "KeyError" end.

Definition levels (s : string) : res (list Z) := mapM level_of (list_ascii_of_string s).

(* bytes * n *)
Definition repeat_bytes (l : list Z) (n : N) : list Z := N.iter n (fun acc => l ++ acc) [].

Definition expand_rl (e : rlexpr) : res (list Z) :=
  do parts <- mapM (fun sn => do l <- levels (fst sn); Ok (repeat_bytes l (snd sn))) e;
  Ok (concat parts).

(* ------------------------------------------------------------------ Env / TurboEnv *)
Fixpoint assoc_string {A} (k : string) (m : list (string * A)) : option A :=
  match m with
  | [] => None
  | (k', v) :: r => if String.eqb k' k then Some v else assoc_string k r
  end.

Definition env_attr (turbo : bool) (attr : string) : res (list Z) :=
  match assoc_string attr (if turbo then turbo_attrs else env_attrs) with
  | Some e => expand_rl e
  | None => Crash "AttributeError"
  end.

Definition sample_rate (turbo : bool) : Z := if turbo then turbo_sample_rate else env_sample_rate.

(* ------------------------------------------------------------------ encode_data_bits *)
(* Python list indexing: negative indices count from the end *)
Definition py_index {A} (l : list A) (i : Z) : res A :=
  let n := Z.of_nat (length l) in
  let j := if i <? 0 then i + n else i in
  if (0 <=? j) && (j <? n)
  then match nth_error l (Z.to_nat j) with Some a => Ok a | None => Crash "IndexError" end
  else Crash "IndexError".

Definition bit_positions : list Z := map Z.of_nat (seq 0 bits_per_byte).

Definition encode_byte (units : list (list Z)) (byte : Z) : res (list Z) :=
  do parts <- mapM (fun i => py_index units (bit_index byte i)) bit_positions;
  Ok (concat parts).

Definition encode_bits_with (units : list (list Z)) (data : list Z) : res (list Z) :=
  do parts <- mapM (encode_byte units) data;
  Ok (concat parts).

(* [env.ZERO, env.ONE] is rebuilt for every bit; its evaluation cannot fail differently from
   one bit to the next, so it is evaluated once -- unless there are no bits at all *)
Definition encode_data_bits (turbo : bool) (data : list Z) : res (list Z) :=
  match data, bits_per_byte with
  | [], _ | _, O => Ok []
  | _, _ => do units <- mapM (env_attr turbo) bit_units; encode_bits_with units data
  end.

(* ------------------------------------------------------------------ encode_as_wav *)
Definition seg_bytes (turbo : bool) (sc : scope) (s : wseg) : res (list Z) :=
  match s with
  | SEnv a => env_attr turbo a
  | STurboOnly a => if turbo then env_attr turbo a else Ok []
  | SBitsPack fmt args => do d <- pack_args sc fmt args; encode_data_bits turbo d
  | SBitsCode => match sc_code sc with Some c => encode_data_bits turbo c | None => Crash "NameError" end
  end.

(* the argument of make_wav_file: the samples *)
Definition encode_samples (turbo : bool) (base : Z) (code name : list Z) : res (list Z) :=
  do parts <- mapM (seg_bytes turbo (image_scope base code (Some name))) wav_segments;
  Ok (concat parts).

(* ------------------------------------------------------------------ make_wav_file *)
Definition make_wav_file (data : list Z) (rate : Z) : res (list Z) :=
  let sc := {| sc_base := None; sc_code := None; sc_name := None;
               sc_rate := Some rate; sc_data_len := Some (Z.of_nat (length data)) |} in
  do h <- pack_args sc wav_header_fmt wav_header_args; Ok (h ++ data).

Definition encode_as_wav (turbo : bool) (base : Z) (code name : list Z) : res (list Z) :=
  do d <- encode_samples turbo base code name; make_wav_file d (sample_rate turbo).

(* ------------------------------------------------------------------ formats.file_formats *)
Inductive format := FmtBin | FmtRaw | FmtBkWav | FmtBkTurboWav.

(* file_formats[f](base, code, *arguments): the WAV formats take the tape name *)
Definition file_format (f : format) (base : Z) (code : list Z) (name : option (list Z)) : res (list Z) :=
  match f, name with
  | FmtBin, None => fmt_bin base code
  | FmtRaw, None => fmt_raw base code
  | FmtBkWav, Some n => encode_as_wav false base code n
  | FmtBkTurboWav, Some n => encode_as_wav true base code n
  | _, _ => Crash "TypeError"
  end.
