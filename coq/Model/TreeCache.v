(* Model/TreeCache.v -- the token tree of operands / expressions as the code mutates it (C16).

   Mirrors (pdpy11 at HEAD, i.e. after the fix commits 95bc3ec "hoisting no longer rewrites the
   shared operand tree" and 731b140 "cached result of an impure operator is only reused for the
   same operand values"):

     types.py      Number.resolve (reported_invalid_base8), CharLiteral.resolve (evaluated_value),
                   Symbol._resolve, InstructionPointer.resolve, ParenthesizedExpression.resolve
     operators.py  InfixOperator.resolve / UnaryOperator.resolve / wrap_impure
                   (the pair expr.value_args, expr.value stored on the operator token)
     insns.py      RegisterModeOperandStub.encode incl. hoist() (shallow copies),
                   OffsetOperandStub.encode incl. fixup_label (rewrites the tree IN PLACE),
                   ImmediateOperandStub.encode, RegisterOperandStub.encode,
                   Instruction.compile_insn / get_opcode (field placement)
     metacommands.py  byte, word, even, repeat, end
     compiler.py   compile_block (running address; CompilerStopIteration caught by EVERY block)

   Every function that the code runs on a token returns the token *as the code leaves it*, so the
   body of a '.repeat' can be threaded through its n compilations ([repeat_model]).  The reference
   [unrolled] compiles the body written out n times in one block.

   Value level: all addresses are the final integers.  With an unknown link base the code keeps
   LinearPolynomial / Deferred objects and evaluates them later, possibly several times and in
   another order; the cache key is then object identity (a miss).  Proofs/TreeCacheP.v shows that a
   hit and a miss give the same value in every coherent cache state, which is what makes the
   value-level model adequate for both modes; the correspondence sweep runs both modes.

   Operators, purity flags and get_as_int come from the regenerated Gen files.
   Not modelled (explicit Crash "unmodelled:..."): the '%expr' register operator.
   No proofs here. *)
From Coq Require Import ZArith List String Ascii Bool.
From Verif Require Import Base.Res Base.Bytes.
From Verif Require Gen.GenOperators Gen.GenGetAsInt Gen.GenTreeCachePins.
Import ListNotations.
Open Scope string_scope.
Open Scope list_scope.
Open Scope Z_scope.

(* The source text of hoist() (incl. its copy.copy calls), wrap_impure, the resolve() methods, the
   fixup_label closure and metacommands.repeat is pinned by tools/gens/gen_treecache.py: an edit
   there aborts the translator and this file's dependants report a broken obligation. *)
Definition pinned_source : list string * nat :=
  (GenTreeCachePins.pinned_functions, GenTreeCachePins.hoist_copy_calls).

(* ------------------------------------------------------------------------------------------ *)
(* the token tree *)

(* expr.value_args / expr.value of an impure operator token; None = expr.value is None *)
Definition cache := option (list Z * Z).

Inductive tree :=
| Num (repr : string) (v : Z) (valid_label bad8 reported : bool)
      (* types.Number: representation, value, is_valid_label, invalid_base8, reported_invalid_base8 *)
| Chr (cs : list Z) (evaluated : option Z)
      (* types.CharLiteral on 1-2 ASCII characters (code points cs); evaluated_value *)
| Sym (name : string) (nec_label : bool)          (* types.Symbol: name (lower case), is_necessarily_label *)
| Dot                                             (* types.InstructionPointer *)
| Paren (br : string) (e : tree)                  (* types.ParenthesizedExpression: opening_parenthesis *)
| Infix (op : string) (l r : tree) (c : cache)    (* operators.InfixOperator subclass other than call *)
| Prefix (op : string) (e : tree) (c : cache)
| Postfix (op : string) (e : tree) (c : cache)
| Call (l r : tree) (c : cache).                  (* operators.call, 'l(r)' *)

(* the tree without what the code writes onto it: caches and reported flags *)
Fixpoint strip (t : tree) : tree :=
  match t with
  | Num r v vl b8 _ => Num r v vl b8 false
  | Chr cs _ => Chr cs None
  | Sym n nl => Sym n nl
  | Dot => Dot
  | Paren b e => Paren b (strip e)
  | Infix op l r _ => Infix op (strip l) (strip r) None
  | Prefix op e _ => Prefix op (strip e) None
  | Postfix op e _ => Postfix op (strip e) None
  | Call l r _ => Call (strip l) (strip r) None
  end.

(* ------------------------------------------------------------------------------------------ *)
(* small helpers *)
Fixpoint zl_eqb (a b : list Z) : bool :=
  match a, b with
  | [], [] => true
  | x :: xs, y :: ys => Z.eqb x y && zl_eqb xs ys
  | _, _ => false
  end.

Definition ne {A} (d : list A) : bool := match d with [] => false | _ => true end.

Definition Zlen (bs : list Z) : Z := Z.of_nat (List.length bs).

(* insns.REGISTER_NAMES (names arrive lower-cased) *)
Definition reg_of_name (n : string) : option Z :=
  if String.eqb n "r0" then Some 0 else if String.eqb n "r1" then Some 1 else
  if String.eqb n "r2" then Some 2 else if String.eqb n "r3" then Some 3 else
  if String.eqb n "r4" then Some 4 else if String.eqb n "r5" then Some 5 else
  if String.eqb n "r6" then Some 6 else if String.eqb n "r7" then Some 7 else
  if String.eqb n "sp" then Some 6 else if String.eqb n "pc" then Some 7 else None.

(* purity flag of an operator, from the regenerated table of @operator rows *)
Definition kind_eqb (a b : GenOperators.op_kind) : bool :=
  match a, b with
  | GenOperators.KPrefix, GenOperators.KPrefix
  | GenOperators.KInfix, GenOperators.KInfix
  | GenOperators.KPostfix, GenOperators.KPostfix => true
  | _, _ => false
  end.

Fixpoint find_row (k : GenOperators.op_kind) (op : string) (rows : list GenOperators.op_row) : option GenOperators.op_row :=
  match rows with
  | [] => None
  | r :: rest => if kind_eqb k (GenOperators.or_kind r) && String.eqb op (GenOperators.or_char r) then Some r
                 else find_row k op rest
  end.

Definition is_pure (k : GenOperators.op_kind) (op : string) : bool :=
  match find_row k op GenOperators.operator_table with
  | Some r => GenOperators.or_pure r
  | None => true
  end.

(* type(self).fn applied to integer operands: value and the identifiers passed to reports.error *)
Definition invoke_infix (op : string) (args : list Z) : res GenOperators.opres :=
  match GenOperators.infix_body op, args with
  | Some f, [a; b] => f a b
  | None, _ => Crash "unknown-operator"
  | _, _ => Crash "arity"
  end.
Definition invoke_prefix (op : string) (args : list Z) : res GenOperators.opres :=
  match GenOperators.prefix_body op, args with
  | Some f, [a] => f a
  | None, _ => Crash "unknown-operator"
  | _, _ => Crash "arity"
  end.
Definition invoke_postfix (op : string) (args : list Z) : res GenOperators.opres :=
  match GenOperators.postfix_body op, args with
  | Some f, [a] => f a
  | None, _ => Crash "unknown-operator"
  | _, _ => Crash "arity"
  end.

(* wrap_impure: a pure operator is invoked directly and never touches expr.value;
   an impure one returns expr.value iff it is set and value_args equal the operands,
   otherwise invokes and stores (args, value) -- also when an error was reported *)
Definition use_cache (pure : bool) (c : cache) (args : list Z) (invoke : list Z -> res GenOperators.opres)
  : res (Z * cache * list string) :=
  let run (store : bool) :=
    do vi <- invoke args;
    Ok (fst vi, (if store then Some (args, fst vi) else c), snd vi) in
  if pure then run false
  else match c with
       | Some (args0, v0) => if zl_eqb args0 args then Ok (v0, c, []) else run true
       | None => run true
       end.

(* CharLiteral: bytes_value[:2].ljust(2, b"\0") unpacked "<H" *)
Definition chr_value (cs : list Z) : Z :=
  match cs with
  | [] => 0
  | [a] => a
  | a :: b :: _ => a + 256 * b
  end.

(* ------------------------------------------------------------------------------------------ *)
(* resolve() followed by wait(): value, the token as it is left, error identifiers reported.
   Err = reports.error followed by raise RecoverableError *)
Definition evr := res (Z * tree * list string).

Fixpoint eval (env : string -> option Z) (dot : Z) (t : tree) : evr :=
  match t with
  | Num r v vl b8 rep =>
      if b8 && negb rep then Ok (v, Num r v vl b8 true, ["invalid-number"]) else Ok (v, t, [])
  | Chr cs ev =>
      match ev with
      | Some x => Ok (x, t, [])
      | None => Ok (chr_value cs, Chr cs (Some (chr_value cs)), [])
      end
  | Sym n nl =>
      match (if nl then None else reg_of_name n) with
      | Some _ => Err ["unexpected-register"]
      | None => match env n with
                | Some v => Ok (v, t, [])
                | None => Ok (0, t, ["undefined-symbol"])
                end
      end
  | Dot => Ok (dot, t, [])
  | Paren b e =>
      do x <- eval env dot e;
      let '(v, e', d) := x in Ok (v, Paren b e', d)
  | Infix op l r c =>
      do x <- eval env dot l; let '(a, l', d1) := x in
      do y <- eval env dot r; let '(b, r', d2) := y in
      do z <- use_cache (is_pure GenOperators.KInfix op) c [a; b] (invoke_infix op);
      let '(v, c', d3) := z in Ok (v, Infix op l' r' c', d1 ++ d2 ++ d3)
  | Call l r c =>
      do x <- eval env dot l; let '(a, l', d1) := x in
      do y <- eval env dot r; let '(b, r', d2) := y in
      do z <- use_cache (is_pure GenOperators.KInfix "$") c [a; b] (invoke_infix "$");
      let '(v, c', d3) := z in Ok (v, Call l' r' c', d1 ++ d2 ++ d3)
  | Prefix op e c =>
      do x <- eval env dot e; let '(a, e', d1) := x in
      do z <- use_cache (is_pure GenOperators.KPrefix op) c [a] (invoke_prefix op);
      let '(v, c', d3) := z in Ok (v, Prefix op e' c', d1 ++ d3)
  | Postfix op e c =>
      do x <- eval env dot e; let '(a, e', d1) := x in
      do z <- use_cache (is_pure GenOperators.KPostfix op) c [a] (invoke_postfix op);
      let '(v, c', d3) := z in Ok (v, Postfix op e' c', d1 ++ d3)
  end.

(* get_as_int(state, what, token, arg_token, bitness, unsigned) on an evaluated tree *)
Definition gai (bits : option Z) (uns : bool) (env : string -> option Z) (dot : Z) (t : tree) : evr :=
  do x <- eval env dot t; let '(v, t', d) := x in
  do w <- GenGetAsInt.get_as_int bits uns None v;
  Ok (w, t', d).

(* ------------------------------------------------------------------------------------------ *)
(* RegisterModeOperandStub.encode *)

(* try_as_register on a Symbol; the operators.register case ('%e') is [is_percent] *)
Definition regp (t : tree) : option Z :=
  match t with
  | Sym n false => reg_of_name n
  | _ => None
  end.
Definition is_percent (t : tree) : bool :=
  match t with Prefix op _ _ => String.eqb op "%" | _ => false end.
Definition is_regish (t : tree) : bool :=
  match regp t with Some _ => true | None => is_percent t end.

(* hoist(): 'a+b(c)' is parsed as 'a+(b(c))'; the register call is moved to the top.
   Rewritten nodes are shallow copies (copy.copy keeps value / value_args); the new call node is fresh *)
Fixpoint hoist (t : tree) : tree :=
  match t with
  | Infix op l r c =>
      let r' := hoist r in
      match r' with
      | Call cl cr _ => if is_regish cr then Call (Infix op l cl c) cr None else Infix op l r' c
      | _ => Infix op l r' c
      end
  | Prefix op e c =>
      let e' := hoist e in
      match e' with
      | Call cl cr _ => if is_regish cr then Call (Prefix op cl c) cr None else Prefix op e' c
      | _ => Prefix op e' c
      end
  | _ => t
  end.

(* the original operand after the offset part of its hoisted copy has been evaluated to [off']:
   copied nodes lose what was written on the copy, shared children keep it *)
Fixpoint unhoist (t off' : tree) : tree :=
  match t, off' with
  | Infix op l r c, Infix _ l' r' _ => Infix op l' (unhoist r r') c
  | Prefix op e c, Prefix _ e' _ => Prefix op (unhoist e e') c
  | Call cl cr c, x => Call x cr c
  | _, _ => t
  end.

Fixpoint has_percent (t : tree) : bool :=
  match t with
  | Paren _ e => has_percent e
  | Infix _ l r _ | Call l r _ => has_percent l || has_percent r
  | Prefix op e _ => String.eqb op "%" || has_percent e
  | Postfix _ e _ => has_percent e
  | _ => false
  end.

Definition paren_reg (t : tree) : option Z :=
  match t with
  | Paren b e => if String.eqb b "(" then regp e else None
  | _ => None
  end.

(* what the isinstance cascade decides: mode bits, how the extension word is obtained, and where
   in the operand the subtree sits that is evaluated for it *)
Inductive ekind := ENone | EZero | EGai | ERel.
Inductive dir := DOperand | DLhs.      (* .operand of a unary operator; .lhs of a call *)

Fixpoint get (p : list dir) (t : tree) : tree :=
  match p, t with
  | [], _ => t
  | DOperand :: p', Prefix _ e _ => get p' e
  | DOperand :: p', Postfix _ e _ => get p' e
  | DLhs :: p', Call l _ _ => get p' l
  | _, _ => Dot
  end.
Fixpoint put (p : list dir) (t x : tree) : tree :=
  match p, t with
  | [], _ => x
  | DOperand :: p', Prefix op e c => Prefix op (put p' e x) c
  | DOperand :: p', Postfix op e c => Postfix op (put p' e x) c
  | DLhs :: p', Call l r c => Call (put p' l x) r c
  | _, _ => t
  end.

Definition plain_plan (t : tree) : Z * ekind * list dir :=
  match regp t with Some r => (r, ENone, []) | None =>
  match paren_reg t with Some r => (8 + r, ENone, []) | None =>
  match t with
  | Prefix op e c =>
      if String.eqb op "@" then
        match regp e with Some r => (8 + r, ENone, []) | None =>
        match e with
        | Postfix op2 e2 c2 =>
            match (if String.eqb op2 "+" then paren_reg e2 else None) with
            | Some r => (24 + r, ENone, [])
            | None => (63, ERel, [DOperand])
            end
        | Prefix op2 e2 c2 =>
            match (if String.eqb op2 "-" then paren_reg e2 else None) with
            | Some r => (40 + r, ENone, [])
            | None =>
                if String.eqb op2 "#" then (31, EGai, [DOperand; DOperand])
                else (63, ERel, [DOperand])
            end
        | _ =>
            match paren_reg e with
            | Some r => (56 + r, EZero, [])
            | None => (63, ERel, [DOperand])
            end
        end end
      else if String.eqb op "-" then
        match paren_reg e with Some r => (32 + r, ENone, []) | None => (55, ERel, []) end
      else if String.eqb op "#" then (23, EGai, [DOperand])
      else (55, ERel, [])
  | Postfix op e c =>
      match (if String.eqb op "+" then paren_reg e else None) with
      | Some r => (16 + r, ENone, [])
      | None => (55, ERel, [])
      end
  | Call cl cr c =>
      match regp cr with
      | Some r =>
          match cl with
          | Prefix op x c1 =>
              if String.eqb op "@" then (56 + r, EGai, [DLhs; DOperand])
              else (48 + r, EGai, [DLhs])
          | _ => (48 + r, EGai, [DLhs])
          end
      | None => (55, ERel, [])
      end
  | _ => (55, ERel, [])
  end end end.

(* operand = hoist(operand) and the cascade.  A hoisted operand is a fresh call node over copies
   (last component = Some off, the copied offset expression; the path is relative to it):
   only what is written on the shared children survives in the stored operand ([unhoist]) *)
Definition classify (t : tree) : Z * ekind * list dir * option tree :=
  match t, hoist t with
  | Infix _ _ _ _, Call off reg _
  | Prefix _ _ _, Call off reg _ =>
      match regp reg with
      | Some r =>
          match off with
          | Prefix op x c1 =>
              if String.eqb op "@" then (56 + r, EGai, [DOperand], Some off)
              else (48 + r, EGai, [], Some off)
          | _ => (48 + r, EGai, [], Some off)
          end
      | None => (55, ERel, [], None)     (* '%e' register: excluded by has_percent below *)
      end
  | _, _ => (plain_plan t, None)
  end.

(* result of one operand stub: value placed in the opcode field, extension bytes, operand as left *)
Definition opr := res (Z * list Z * tree * list string).

Definition compile_rm (env : string -> option Z) (dot rel : Z) (t : tree) : opr :=
  if has_percent t then Crash "unmodelled:%register" else
  let '(mode, kind, path, hoisted) := classify t in
  let whole := match hoisted with Some off => off | None => t end in
  let back s' := match hoisted with
                 | Some off => unhoist t (put path off s')
                 | None => put path t s'
                 end in
  match kind with
  | ENone => Ok (mode, [], t, [])
  | EZero => Ok (mode, [0; 0], t, [])
  | EGai =>
      do x <- gai (Some 16) false env dot (get path whole); let '(w, s', d) := x in
      Ok (mode, le16 w, back s', d)
  | ERel =>
      do x <- eval env dot (get path whole); let '(v, s', d) := x in
      Ok (mode, le16 ((v - rel - 2) mod 65536), back s', d)
  end.

(* RegisterOperandStub.encode *)
Definition compile_reg (t : tree) : opr :=
  if is_percent t then Crash "unmodelled:%register" else
  match regp t with
  | Some r => Ok (r, [], t, [])
  | None => Err ["invalid-addressing"]
  end.

(* ------------------------------------------------------------------------------------------ *)
(* OffsetOperandStub.encode *)

(* fixup_label(token) with the nonlocal flag fixup_active threaded; rewrites lhs/rhs/operand in place *)
Fixpoint fixup (act : bool) (t : tree) : tree * bool :=
  match t with
  | Infix op l r c =>
      let '(l', a1) := fixup act l in
      let '(r', a2) := fixup a1 r in (Infix op l' r' c, a2)
  | Call l r c =>
      let '(l', a1) := fixup act l in
      let '(r', a2) := fixup a1 r in (Call l' r' c, a2)
  | Prefix op e c => let '(e', a1) := fixup act e in (Prefix op e' c, a1)
  | Postfix op e c => let '(e', a1) := fixup act e in (Postfix op e' c, a1)
  | Num r v vl b8 rep => if vl && act then (Sym r true, false) else (t, act)
  | Sym _ _ => (t, false)
  | Dot => (t, false)
  | Chr _ _ => (t, act)
  | Paren _ _ => (t, act)
  end.

(* [txt] = '"(" in operand.text() or ":" in operand.text()' -- a property of the source text,
   which the rewriting does not change *)
Definition fix_inplace (txt : bool) (t : tree) : tree :=
  match t with
  | Num _ _ true _ _ => t
  | _ => if txt then t else fst (fixup true t)
  end.
(* the token that is resolved: a bare label-like number becomes a fresh local Symbol *)
Definition br_operand (txt : bool) (t : tree) : tree :=
  match t with
  | Num r _ true _ _ => Sym r true
  | _ => fix_inplace txt t
  end.
Definition br_back (t : tree) (s' : tree) : tree :=
  match t with
  | Num _ _ true _ _ => t
  | _ => s'
  end.

(* fn() of OffsetOperandStub.encode *)
Definition offset_field (bits : Z) (uns : bool) (offset : Z) : Z * list string :=
  let e1 :=
    if uns && (0 <? offset) then ["branch-out-of-bounds"]
    else
      let min_offset := - 2 ^ (bits + (if uns then 1 else 0)) + 2 * (if uns then 1 else 0) in
      let max_offset := if uns then 0 else 2 ^ bits - 2 in
      if (min_offset <=? offset) && (offset <=? max_offset) then [] else ["branch-out-of-bounds"] in
  let e2 := if Z.eqb (offset mod 2) 1 then ["odd-branch"] else [] in
  if ne (e1 ++ e2) then (0, e1 ++ e2)
  else ((if uns then (- offset) / 2 else offset / 2), []).

Definition compile_br (bits : Z) (uns txt : bool) (env : string -> option Z) (dot rel : Z) (t : tree) : opr :=
  do x <- eval env dot (br_operand txt t); let '(v, s', d) := x in
  let '(f, d2) := offset_field bits uns (v - rel) in
  Ok (f, [], br_back t s', d ++ d2).

(* ImmediateOperandStub.encode ('emt 5', 'mark 2'); a leading '#' is dropped with a warning *)
Definition imm_field (bits : Z) (uns : bool) (value : Z) : Z * list string :=
  if uns && (value <? 0) then (0, ["value-out-of-bounds"])
  else
    let min_value := if uns then 0 else - 2 ^ bits + 1 in
    let max_value := 2 ^ bits - 1 in
    if (min_value <=? value) && (value <=? max_value) then (value mod 2 ^ bits, [])
    else (0, ["value-out-of-bounds"]).

Definition compile_imm (bits : Z) (uns : bool) (env : string -> option Z) (dot : Z) (t : tree) : opr :=
  match t with
  | Prefix op e c =>
      if String.eqb op "#" then
        do x <- eval env dot e; let '(v, e', d) := x in
        let '(f, d2) := imm_field bits uns v in Ok (f, [], Prefix op e' c, d ++ d2)
      else
        do x <- eval env dot t; let '(v, t', d) := x in
        let '(f, d2) := imm_field bits uns v in Ok (f, [], t', d ++ d2)
  | _ =>
      do x <- eval env dot t; let '(v, t', d) := x in
      let '(f, d2) := imm_field bits uns v in Ok (f, [], t', d ++ d2)
  end.

(* ------------------------------------------------------------------------------------------ *)
(* statements of a '.repeat' body *)

(* one operand stub: its class and where its value goes in the opcode word
   (derived by the harness from Instruction.opcode_pattern / bit_indexes of the real table) *)
Inductive slot :=
| SRm (shift : Z)                           (* RegisterModeOperandStub: 6-bit field *)
| SReg (shift : Z)                          (* RegisterOperandStub: 3-bit field *)
| SBr (bits : Z) (uns txt : bool)           (* OffsetOperandStub: field at bit 0 *)
| SImm (bits : Z) (uns : bool).             (* ImmediateOperandStub: field at bit 0 *)

Inductive item :=
| IWord (ops : list tree)                   (* .word e, ...  (at least one operand) *)
| IByte (ops : list tree)                   (* .byte e, ... *)
| IEven
| IInsn (base : Z) (ops : list (slot * tree))
| IRepeat (cnt : tree) (body : list item)
| IEnd.                                     (* .end *)

Definition field_bits (s : slot) : Z :=
  match s with SRm _ => 6 | SReg _ => 3 | SBr b _ _ => b | SImm b _ => b end.
Definition field_shift (s : slot) : Z :=
  match s with SRm sh => sh | SReg sh => sh | _ => 0 end.

Definition compile_slot (env : string -> option Z) (dot rel : Z) (s : slot) (t : tree) : opr :=
  match s with
  | SRm _ => compile_rm env dot rel t
  | SReg _ => compile_reg t
  | SBr bits uns txt => compile_br bits uns txt env dot rel t
  | SImm bits uns => compile_imm bits uns env dot t
  end.

(* Instruction.compile_insn: operands left to right, rel_address = emit_address + 2 + len(operands_encoding);
   get_opcode places (value >> i) & 1 for each bit index.  Returns opcode contribution, extension
   bytes, operands as left, diagnostics *)
Fixpoint compile_ops (env : string -> option Z) (dot : Z) (enc_len : Z) (ops : list (slot * tree))
  : res (Z * list Z * list (slot * tree) * list string) :=
  match ops with
  | [] => Ok (0, [], [], [])
  | (s, t) :: rest =>
      do x <- compile_slot env dot (dot + 2 + enc_len) s t; let '(f, ext, t', d) := x in
      do y <- compile_ops env dot (enc_len + Zlen ext) rest; let '(opc, exts, rest', d2) := y in
      Ok ((f mod 2 ^ field_bits s) * 2 ^ field_shift s + opc, ext ++ exts, (s, t') :: rest', d ++ d2)
  end.

(* Metacommand.compile_insn.fn: operands cooked left to right with get_as_int; a RecoverableError
   is caught there and the directive yields b"" *)
Fixpoint cook (bits : option Z) (uns : bool) (env : string -> option Z) (dot : Z) (ts : list tree)
  : res (option (list Z) * list tree * list string) :=
  match ts with
  | [] => Ok (Some [], [], [])
  | t :: rest =>
      match eval env dot t with
      | Ok (v, t', d) =>
          match GenGetAsInt.get_as_int bits uns None v with
          | Ok w =>
              do y <- cook bits uns env dot rest; let '(ws, rest', d2) := y in
              Ok (match ws with Some l => Some (w :: l) | None => None end, t' :: rest', d ++ d2)
          | Err ids => Ok (None, t' :: rest, d ++ ids)
          | Crash s => Crash s
          | OutOfFuel => OutOfFuel
          end
      | Err ids => Ok (None, t :: rest, ids)
      | Crash s => Crash s
      | OutOfFuel => OutOfFuel
      end
  end.

(* bytes, Compiler.repetitions_compiled afterwards; the statements as left; diagnostics *)
Definition result := res ((list Z * Z) * list item * list string).

(* MAX_REPETITIONS (commit 5b48d07): the iterations of ALL '.repeat' blocks of one assembly are counted
   in Compiler.repetitions_compiled; the iteration that would make the count exceed the budget reports
   'value-out-of-bounds' and leaves its loop.  [None] = no budget (the bare mechanism). *)
Definition over (budget : option Z) (c : Z) : bool :=
  match budget with Some m => Z.ltb m c | None => false end.

Section Level.
  Variable budget : option Z.
  (* compile_block on a nested body (one level deeper): body, address, repetitions compiled so far *)
  Variable rec_block : list item -> Z -> Z -> result.

  (* metacommands.repeat: for _ in range(n): count the iteration (break with an error when over the
     budget); chunk = compile_block(body, addr); addr += len(chunk); chunks.append(chunk).
     The result is b"".join(chunks) when no chunk is deferred, else the left fold 'result += chunk'
     (commit 7c32a54, a pure performance repair): at the value level both are the concatenation of
     the chunks in order (Proofs/TreeCacheP.v: join_is_fold), which is what [loop] returns *)
  Fixpoint loop (n : nat) (body : list item) (a c : Z) : result :=
    match n with
    | O => Ok (([], c), body, [])
    | S k =>
        if over budget (c + 1) then Ok (([], c + 1), body, ["value-out-of-bounds"])
        else
          do x <- rec_block body a (c + 1); let '((bs, c2), body', d) := x in
          do y <- loop k body' (a + Zlen bs) c2; let '((bs2, c3), body'', d2) := y in
          Ok ((bs ++ bs2, c3), body'', d ++ d2)
    end.

  Definition compile_item (env : string -> option Z) (a c : Z) (it : item) : res ((list Z * Z) * item * list string) :=
    match it with
    | IWord ops =>
        do x <- cook (Some 16) false env a ops; let '(ws, ops', d) := x in
        let odd := Z.eqb (a mod 2) 1 in
        match ws with
        | Some l => Ok (((if odd then [0] else []) ++ flat_map le16 l, c), IWord ops', d ++ (if odd then ["odd-address"] else []))
        | None => Ok (([], c), IWord ops', d)
        end
    | IByte ops =>
        do x <- cook (Some 8) false env a ops; let '(ws, ops', d) := x in
        match ws with
        | Some l => Ok ((l, c), IByte ops', d)
        | None => Ok (([], c), IByte ops', d)
        end
    | IEven => Ok (((if Z.eqb (a mod 2) 1 then [0] else []), c), IEven, [])
    | IInsn base ops =>
        do x <- compile_ops env a 0 ops; let '(opc, exts, ops', d) := x in
        Ok ((le16 (base + opc) ++ exts, c), IInsn base ops', d)
    | IRepeat cnt body =>
        do x <- cook None true env a [cnt]; let '(ws, cnt', d) := x in
        let cnt1 := match cnt' with [c0] => c0 | _ => cnt end in
        match ws with
        | Some [n] =>
            do y <- loop (Z.to_nat n) body a c; let '(bsc, body', d2) := y in
            Ok (bsc, IRepeat cnt1 body', d ++ d2)
        | _ => Ok (([], c), IRepeat cnt1 body, d)
        end
    | IEnd => Ok (([], c), IEnd, [])        (* never reached through [block]: CompilerStopIteration *)
    end.

  (* compile_block: statements in order at the running address; '.end' raises CompilerStopIteration,
     which THIS block catches (the rest of the block is not compiled and stays untouched) *)
  Fixpoint block (env : string -> option Z) (its : list item) (a c : Z) : result :=
    match its with
    | [] => Ok (([], c), [], [])
    | IEnd :: rest => Ok (([], c), its, [])
    | it :: rest =>
        do x <- compile_item env a c it; let '((bs, c1), it', d) := x in
        do y <- block env rest (a + Zlen bs) c1; let '((bs2, c2), rest', d2) := y in
        Ok ((bs ++ bs2, c2), it' :: rest', d ++ d2)
    end.
End Level.

(* fuel = nesting depth of '.repeat' + 1 *)
Fixpoint compile_block (budget : option Z) (fuel : nat) (env : string -> option Z) (its : list item) (a c : Z) : result :=
  match fuel with
  | O => OutOfFuel
  | S f => block budget (compile_block budget f env) env its a c
  end.

(* the mechanism: ONE body token compiled n times, each time as the previous compilation left it *)
Definition repeat_model (budget : option Z) (fuel : nat) (env : string -> option Z) (n : nat) (body : list item) (a c : Z) : result :=
  loop budget (compile_block budget fuel env) n body a c.

(* the meaning: the body written out n times, compiled as one run of statements *)
Definition written_out (n : nat) (body : list item) : list item := List.concat (List.repeat body n).
Definition unrolled (budget : option Z) (fuel : nat) (env : string -> option Z) (n : nat) (body : list item) (a c : Z) : result :=
  compile_block budget fuel env (written_out n body) a c.

(* the budget of the code, regenerated from the source *)
Definition code_budget : option Z := Some GenTreeCachePins.max_repetitions.

(* a run that ends normally with the count within the budget m: no iteration was refused *)
Definition within (m : Z) (r : result) : Prop :=
  exists bs k y d, r = Ok ((bs, k), y, d) /\ k <= m.

(* what is observable: the bytes if no error was reported, else failure *)
Inductive outcome := OOk (bs : list Z) | OFailed | OCrash (site : string) | OFuel.
Definition outcome_of (r : result) : outcome :=
  match r with
  | Ok ((bs, _), _, []) => OOk bs
  | Ok (_, _, _ :: _) => OFailed
  | Err _ => OFailed
  | Crash s => OCrash s
  | OutOfFuel => OFuel
  end.

Fixpoint depth_item (it : item) : nat :=
  match it with
  | IRepeat _ body => S (fold_right (fun i m => Nat.max (depth_item i) m) O body)
  | _ => O
  end.
Definition depth (its : list item) : nat := fold_right (fun i m => Nat.max (depth_item i) m) O its.

(* '.end' / 'end' lexically inside the body, at any depth *)
Fixpoint has_end_item (it : item) : bool :=
  match it with
  | IEnd => true
  | IRepeat _ body => existsb has_end_item body
  | _ => false
  end.
Definition has_end (its : list item) : bool := existsb has_end_item its.
