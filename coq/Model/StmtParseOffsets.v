(* Every offset stored in a parse tree of Model/StmtParse.v, as (ctx_start.pos, ctx_end.pos) pairs; the `.ctx`
   attribute that instruction() puts on a code block counts as the pair (p, p).  Definitions only (used in the
   statement of P_offsets_in_file). *)
From Coq Require Import List NArith String.
From Verif Require Import Model.StmtParse.
Import ListNotations.
Open Scope N_scope.

Fixpoint offsets (n : node) : list span :=
  let fix go (l : list node) : list span := match l with [] => [] | x :: r => offsets x ++ go r end in
  match n with
  | Symbol s e _ _ | Number s e _ _ _ _ | CharLit s e _ _ | IPtr s e | QuotedStr s e _ _ | Label s e _ _ => [(s, e)]
  | Paren s e x _ _ | Prefix s e _ x | Postfix s e _ x | AngleChar s e x => (s, e) :: offsets x
  | Infix s e _ l r => (s, e) :: offsets l ++ offsets r
  | Assign s e t v _ => (s, e) :: offsets t ++ offsets v
  | Concat s e l | Words s e l => (s, e) :: go l
  | Insn s e nm ops => (s, e) :: offsets nm ++ go ops
  | Block s e b l => (s, e) :: match b with Some p => [(p, p)] | None => [] end ++ go l
  end.

(* a range inside a file of n characters, start not after end *)
Definition span_in (n : N) (s : span) : Prop := fst s <= snd s /\ snd s <= n.
Definition diag_spans (d : list diag) : list span := flat_map (fun x => snd x) d.

(* ---- moving a tree / a diagnostic k characters to the right ---------------------------------------------- *)
Fixpoint shift_node (k : N) (n : node) : node :=
  let fix go (l : list node) : list node := match l with [] => [] | x :: r => shift_node k x :: go r end in
  match n with
  | Symbol s e nm l => Symbol (s + k) (e + k) nm l
  | Number s e r v a b => Number (s + k) (e + k) r v a b
  | CharLit s e r str => CharLit (s + k) (e + k) r str
  | IPtr s e => IPtr (s + k) (e + k)
  | Paren s e x o c => Paren (s + k) (e + k) (shift_node k x) o c
  | Infix s e op l r => Infix (s + k) (e + k) op (shift_node k l) (shift_node k r)
  | Prefix s e op x => Prefix (s + k) (e + k) op (shift_node k x)
  | Postfix s e op x => Postfix (s + k) (e + k) op (shift_node k x)
  | QuotedStr s e q str => QuotedStr (s + k) (e + k) q str
  | AngleChar s e x => AngleChar (s + k) (e + k) (shift_node k x)
  | Concat s e l => Concat (s + k) (e + k) (go l)
  | Insn s e nm ops => Insn (s + k) (e + k) (shift_node k nm) (go ops)
  | Words s e ws => Words (s + k) (e + k) (go ws)
  | Label s e nm ext => Label (s + k) (e + k) nm ext
  | Assign s e t v ext => Assign (s + k) (e + k) (shift_node k t) (shift_node k v) ext
  | Block s e b l => Block (s + k) (e + k) (match b with Some p => Some (p + k) | None => None end) (go l)
  end.
Definition shift_span (k : N) (s : span) : span := (fst s + k, snd s + k).
Definition shift_diag (k : N) (d : diag) : diag := (fst d, map (shift_span k) (snd d)).
Definition shift_ctx (k : N) (c : ctx) : ctx := mkCtx (pos c + k) (rest c).

(* parse() started at offset p of a larger text whose remaining part is [text]; parse_file = parse_at 0 *)
Definition parse_at (fuel : nat) (p : N) (text : list N) : presult :=
  match code_body (funs_at fuel) false (mkCtx p text) [] with
  | Ok b _ d => POk b (rev d)
  | Fail _ _ => PCrash "parse: uncaught RecoverableError"%string
  | Crit d => PCritical (rev d)
  | Crash s => PCrash s
  | OutOfFuel => POutOfFuel
  end.
Definition shift_result (k : N) (r : presult) : presult :=
  match r with
  | POk b d => POk (shift_node k b) (map (shift_diag k) d)
  | PCritical d => PCritical (map (shift_diag k) d)
  | PCrash s => PCrash s
  | POutOfFuel => POutOfFuel
  end.
