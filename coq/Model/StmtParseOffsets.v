(* Every offset stored in a parse tree of Model/StmtParse.v, as (ctx_start.pos, ctx_end.pos) pairs; the `.ctx`
   attribute that instruction() puts on a code block counts as the pair (p, p).  Definitions only (used in the
   statement of P_offsets_in_file). *)
From Coq Require Import List NArith.
From Verif Require Import Model.StmtParse.
Import ListNotations.
Open Scope N_scope.

Fixpoint offsets (n : node) : list span :=
  let fix go (l : list node) : list span := match l with [] => [] | x :: r => offsets x ++ go r end in
  match n with
  | Symbol s e _ _ | Number s e _ _ _ _ | CharLit s e _ _ | IPtr s e | QuotedStr s e _ _ | Label s e _ _ => [(s, e)]
  | Paren s e x _ _ | Prefix s e _ x | Postfix s e _ x | AngleChar s e x => (s, e) :: offsets x
  | Infix s e _ l r => (s, e) :: offsets l ++ offsets r
  | Assign s e t v _ => (s, e) :: offsets t ++ offsets v
  | Concat s e l | Words s e l => (s, e) :: go l
  | Insn s e nm ops => (s, e) :: offsets nm ++ go ops
  | Block s e b l => (s, e) :: match b with Some p => [(p, p)] | None => [] end ++ go l
  end.

(* a range inside a file of n characters, start not after end *)
Definition span_in (n : N) (s : span) : Prop := fst s <= snd s /\ snd s <= n.
Definition diag_spans (d : list diag) : list span := flat_map (fun x => snd x) d.
