(* Model of link-base determination (C12): compiler.py set_link_address / compile_and_link_files /
   the `. =` branch of compile_block, with deferred.py's LinearPolynomial as the value domain.

   Abstraction level: the reference semantics of DESIGN 3.4.  Every address is a polynomial over
     LA          (variable 0)      the link base Promise
     skip k      (variable 1+k)    the length of the k-th `. = X` gap (a Deferred[int] in the code: it
                                   can only be computed once the base is known)
   Operators that the code marks awaited=False [+ - unary- times] stay symbolic; awaited operators
   [/ % & | ^ ~ _] need both operands numeric; << needs its count numeric, >> n (n>0) needs both.
   Needing the number of something that still contains a variable while the base itself is being
   computed is the cycle that the code reports as `recursive-definition`.
   Intermediate symbols (`d = e - s`) are transparent at this level: the harness inlines them.
   No proofs in this file. *)
From Coq Require Import String List ZArith Bool.
From Verif Require Import Base.Res Base.Bytes Spec.LinkRef Model.Poly.
Import ListNotations.
Open Scope Z_scope.

Definition skipvar (k : Z) : var := 1 + k.
Definition default_base : Z := 512.   (* 0o1000 *)

Definition cyc {A} : res A := Err ["recursive-definition"%string].

(* symbolic evaluation, as performed while the link base is being determined *)
Fixpoint leval (labels : list poly) (e : lexpr) : res poly :=
  match e with
  | LConst k => Ok (pconst k)
  | LLabel i => match nth_error labels i with Some p => Ok p | None => Err ["undefined-symbol"%string] end
  | LAdd a b => do p <- leval labels a; do q <- leval labels b; Ok (add p q)
  | LSub a b => do p <- leval labels a; do q <- leval labels b; Ok (sub p q)
  | LNeg a => do p <- leval labels a; Ok (neg p)
  | LMul a b =>
      do p <- leval labels a; do q <- leval labels b;
      if is_const q then Ok (scale (const q) p)
      else if is_const p then Ok (scale (const p) q)
      else cyc
  | LAw op a b =>
      do p <- leval labels a; do q <- leval labels b;
      if is_const p && is_const q then do v <- awz op (const p) (const q); Ok (pconst v) else cyc
  | LInv a =>
      do p <- leval labels a;
      if is_const p then Ok (pconst (Z.lnot (const p))) else cyc
  | LShl a b =>
      do p <- leval labels a; do q <- leval labels b;
      if is_const q then
        (if 0 <=? const q then Ok (scale (2 ^ const q) p) else Err ["arithmetic-error"%string])
      else cyc
  | LShr a b =>
      do p <- leval labels a; do q <- leval labels b;
      if is_const q then
        (if const q =? 0 then Ok p
         else if 0 <? const q then (if is_const p then Ok (pconst (Z.shiftr (const p) (const q))) else cyc)
         else Err ["arithmetic-error"%string])
      else cyc
  end.

(* get_as_int(..., bitness=16, unsigned=False) *)
Definition get_as_int16 (v : Z) : res Z :=
  if v <=? -65536 then Err ["value-out-of-bounds"%string]
  else if 65536 <=? v then Err ["value-out-of-bounds"%string]
  else Ok (v mod 65536).

(* set_link_address's fn: no variable left => the constant term, range-checked; otherwise the
   DeferredCycle branch *)
Definition solve_base (labels : list poly) (e : lexpr) : res Z :=
  do p <- leval labels e;
  if is_const p then get_as_int16 (const p) else cyc.

(* ---------- the program level ---------- *)
Inductive stmt :=
| SBytes (bs : list Z)      (* any statement that emits these bytes (size independent of the base) *)
| SLabel                    (* a label: its address is the current address polynomial *)
| SLink (e : lexpr)         (* .link e *)
| SDot (e : lexpr).         (* . = e *)

Inductive chunk :=
| CBytes (bs : list Z)
| CSkip (at_ : poly) (target : lexpr) (k : Z).

Record pstate := PState {
  cur : poly;                 (* address of the next byte *)
  labels : list poly;         (* addresses of the labels seen so far, in order *)
  base_e : option lexpr;      (* link_base["promise"].settled, with the expression it was settled to *)
  nskip : Z;
  chunks : list chunk }.

Definition init : pstate := PState (pvar LA) [] None 0 [].

(* compile_block, one statement *)
Definition step (st : pstate) (s : stmt) : res pstate :=
  match s with
  | SBytes bs => Ok (PState (addc (cur st) (Z.of_nat (length bs))) (labels st) (base_e st) (nskip st)
                            (chunks st ++ [CBytes bs]))
  | SLabel => Ok (PState (cur st) (labels st ++ [cur st]) (base_e st) (nskip st) (chunks st))
  | SLink e =>
      match base_e st with
      | None => Ok (PState (cur st) (labels st) (Some e) (nskip st) (chunks st))
      | Some _ => Err ["address-conflict"%string]
      end
  | SDot e =>
      match base_e st with
      | None => Ok (PState (cur st) (labels st) (Some e) (nskip st) (chunks st))     (* "Set link base" *)
      | Some _ => Ok (PState (add (cur st) (pvar (skipvar (nskip st)))) (labels st) (base_e st)
                             (nskip st + 1) (chunks st ++ [CSkip (cur st) e (nskip st)]))
      end
  end.

Fixpoint pass1 (p : list stmt) (st : pstate) : res pstate :=
  match p with
  | [] => Ok st
  | s :: r => do st' <- step st s; pass1 r st'
  end.

Fixpoint labels_of (e : lexpr) : list nat :=
  match e with
  | LConst _ => []
  | LLabel i => [i]
  | LNeg a | LInv a => labels_of a
  | LAdd a b | LSub a b | LMul a b | LAw _ a b | LShl a b | LShr a b => labels_of a ++ labels_of b
  end.

(* the target of gap k must not mention a label whose address contains gap k or a later one:
   its number would need the length of this very gap *)
Definition uses_later (labels : list poly) (e : lexpr) (k : Z) : bool :=
  existsb (fun i => match nth_error labels i with
                    | Some p => existsb (fun x => skipvar k <=? x) (vars p)
                    | None => false end) (labels_of e).

(* the closure `fn` of the `. =` branch, run when the base is known *)
Definition skip_bytes (labels : list poly) (rho : var -> Z) (at_ : poly) (x : lexpr) (k : Z) : res (list Z) :=
  if uses_later labels x k then cyc else
  let old := eval at_ rho in
  do xv <- zeval (map (fun q => eval q rho) labels) x;
  do new <- get_as_int16 xv;
  let len := new - old in
  if len <? 0 then Err ["value-out-of-bounds"%string] else Ok (zeros (Z.to_nat len)).

Fixpoint emit (labels : list poly) (rho : var -> Z) (cs : list chunk) : res (list Z) :=
  match cs with
  | [] => Ok []
  | CBytes bs :: r => do t <- emit labels rho r; Ok (bs ++ t)
  | CSkip at_ x k :: r =>
      do bs <- skip_bytes labels rho at_ x k;
      do t <- emit labels (upd rho (skipvar k) (Z.of_nat (length bs))) r;
      Ok (bs ++ t)
  end.

Definition base_of (st : pstate) : res Z :=
  match base_e st with
  | None => Ok default_base
  | Some e => solve_base (labels st) e
  end.

(* compile_and_link_files: (base, image) or the first error *)
Definition run (p : list stmt) : res (Z * list Z) :=
  do st <- pass1 p init;
  do b <- base_of st;
  do img <- emit (labels st) (upd (fun _ => 0) LA b) (chunks st);
  Ok (b, img).

Definition all_labels (p : list stmt) : list poly :=
  match pass1 p init with Ok st => labels st | _ => [] end.

Definition is_base_stmt (s : stmt) : bool :=
  match s with SLink _ | SDot _ => true | _ => false end.

Fixpoint bytes_of (p : list stmt) : list Z :=
  match p with
  | [] => []
  | SBytes bs :: r => bs ++ bytes_of r
  | _ :: r => bytes_of r
  end.

(* K + sum k_i * (L_ai - L_bi) *)
Fixpoint diff_sum (K : Z) (terms : list (Z * nat * nat)) : lexpr :=
  match terms with
  | [] => LConst K
  | (k, a, b) :: r => LAdd (diff_sum K r) (LMul (LConst k) (LSub (LLabel a) (LLabel b)))
  end.
Fixpoint diff_sum_value (offs : list Z) (K : Z) (terms : list (Z * nat * nat)) : Z :=
  match terms with
  | [] => K
  | (k, a, b) :: r => diff_sum_value offs K r + k * (nth a offs 0 - nth b offs 0)
  end.
