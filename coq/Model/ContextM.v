(* Hand model of pdpy11/context.py: Context.__repr__ (the line:column arithmetic), and of what
   reports.BareHandler prints for a diagnostic.  No proofs here.

     line_no = self.code[:self.pos].count("\n")
     idx_line_start = self.code.rfind("\n", 0, self.pos) + 1
     col_no = (self.pos - idx_line_start) + self.code[idx_line_start:self.pos].count("\t") * 3
     return f"{self.filename}:{line_no + 1}:{col_no + 1}"

   A text is a list of code points (N); an offset is a nat (an index into it). *)
From Coq Require Import List ZArith NArith Bool.
Import ListNotations.
Open Scope Z_scope.

(* str.count(ch) for a one-character needle *)
Fixpoint count (ch : N) (s : list N) : Z :=
  match s with
  | [] => 0
  | x :: rest => (if N.eqb x ch then 1 else 0) + count ch rest
  end.

(* str.rfind(ch) on a whole string: index of the last occurrence, -1 if none.
   [rfind_from ch s i last]: s starts at index i; last = best index so far *)
Fixpoint rfind_from (ch : N) (s : list N) (i last : Z) : Z :=
  match s with
  | [] => last
  | x :: rest => rfind_from ch rest (i + 1) (if N.eqb x ch then i else last)
  end.
Definition rfind (ch : N) (s : list N) : Z := rfind_from ch s 0 (-1).

(* code[a:b] for 0 <= a, 0 <= b (Python clamps both ends to the length) *)
Definition slice (code : list N) (a b : nat) : list N := skipn a (firstn b code).

(* Context.__repr__ without the file name: (line, column) *)
Definition repr (code : list N) (pos : nat) : Z * Z :=
  let line_no := count 10%N (slice code 0 pos) in
  let idx_line_start := rfind 10%N (slice code 0 pos) + 1 in   (* rfind("\n", 0, pos) + 1 *)
  let col_no := (Z.of_nat pos - idx_line_start)
                + count 9%N (slice code (Z.to_nat idx_line_start) pos) * 3 in
  (line_no + 1, col_no + 1).

(* one (ctx_start, ctx_end, text) item of a diagnostic: file name (as an identifier), text of that
   file, the two offsets *)
Record span := { sp_file : N; sp_code : list N; sp_start : nat; sp_end : nat }.

(* BareHandler.__call__: one line per item, prefixed with repr(ctx_start); the model keeps the
   (file, line, column) triple that the prefix "file:line:col" is printed from *)
Definition bare_prefixes (spans : list span) : list (N * Z * Z) :=
  map (fun s => let '(l, c) := repr (sp_code s) (sp_start s) in (sp_file s, l, c)) spans.
