(* Partial -- the Python partial operations reachable from input, each wrapped in the guard the code has now.
   NO proofs here (Proofs/PartialP.v).  Python partiality is explicit: an operation applied outside its domain is
   [Crash site]; a `try ... except E` turns exactly the listed exception classes into the handler's result.

   Sources of the definitions:
     Gen/GenOperators.v   bodies of / % << >> _ as translated from operators.py (with py_floordiv, py_mod, ...)
     Gen/GenMeta.v        bodies of .align .even .odd, operand typing of the data directives
     Gen/GenGetAsInt.v    get_as_int
     Gen/GenPartial.v     exception classes of the try statements, character classes of the regexes, dictionary keys
                          (tools/gens/gen_partial.py pins the source text around each site)
     Base/Bytes.v         struct.pack("<H"/"<B") with its range check *)
From Coq Require Import String List ZArith NArith Bool.
From Verif Require Import Base.Res Base.Bytes Gen.GenGetAsInt Gen.GenMeta Gen.GenPartial.
From Verif Require Gen.GenOperators.
Import ListNotations.
Open Scope Z_scope.

(* ---- try: r except <classes>: h ------------------------------------------------------------------------- *)
Fixpoint smem (s : string) (l : list string) : bool :=
  match l with [] => false | x :: xs => String.eqb s x || smem s xs end.

Definition catch {A} (classes : list string) (r h : res A) : res A :=
  match r with
  | Crash e => if smem e classes then h else r
  | _ => r
  end.

(* ---- typed data: struct.pack after get_as_int ------------------------------------------------------------- *)
(* .word / .dw / implicit word list / index and immediate extension words: get_as_int(bitness=16, unsigned=False) *)
Definition pack_word (v : Z) : res (list Z) :=
  do w <- get_as_int (Some 16) false None v; pack_H w.
(* .byte / .db : int8 *)
Definition pack_byte (v : Z) : res (list Z) :=
  do w <- get_as_int (Some 8) false None v; pack_B w.
(* .dword : int32, struct.pack("<H", value >> 16) + struct.pack("<H", value & 0xffff) *)
Definition pack_dword (v : Z) : res (list Z) :=
  do w <- get_as_int (Some 32) false None v;
  do hi <- pack_H (Z.shiftr w 16);
  do lo <- pack_H (Z.land w 65535);
  Ok (hi ++ lo)%list.
(* .ascii <n> : result.append(get_as_int(bitness=8, unsigned=True, default=0)) -- bytearray.append range 0..255 *)
Definition ascii_chunk (v : Z) : res (list Z) :=
  match get_as_int_raw (Some 8) true (Some 0) v with
  | GaiRet w | GaiErrRet _ w => pack_B w
  | GaiErrRaise id => Err [id]
  | GaiCrash s => Crash s
  end.
(* relative operands: struct.pack("<H", wait(x - rel - 2) % (2 ** 16)) *)
Definition pack_relative (v : Z) : res (list Z) :=
  do w <- GenGetAsInt.py_mod v (2 ^ 16); pack_H w.
(* the typing of the data directives as the translator read it off the annotations *)
Definition typing_ok : bool :=
  match type_info "int8", type_info "int16", type_info "int32" with
  | Some (Some 8, false), Some (Some 16, false), Some (Some 32, false) => true
  | _, _, _ => false
  end.

(* ---- chr(code) -------------------------------------------------------------------------------------------- *)
(* CPython: ValueError outside range(0x110000); OverflowError when the int does not fit a C int *)
Definition py_chr (code : Z) : res Z :=
  if (0 <=? code) && (code <? 1114112) then Ok code
  else if (- 2147483648 <=? code) && (code <? 2147483648) then Crash "ValueError"
  else Crash "OverflowError".
(* types.AngleBracketedChar.resolve *)
Definition site_chr (code : Z) : res Z := catch chr_caught (py_chr code) (Err ["value-out-of-bounds"]).

(* ---- str.index / radix-50 -------------------------------------------------------------------------------- *)
Open Scope N_scope.
Fixpoint index_of (c : N) (t : list N) (k : Z) : res Z :=
  match t with
  | [] => Crash "ValueError"
  | x :: xs => if x =? c then Ok k else index_of c xs (k + 1)%Z
  end.
Definition table_index (c : N) : res Z := index_of c rad50_table_codes 0%Z.

Definition ascii_upper (c : N) : N := if (97 <=? c) && (c <=? 122) then c - 32 else c.

(* metacommands.rad50, one character c (any code point): non-ASCII raises ValueError(char) explicitly; on ASCII
   str.upper() is ascii_upper *)
Definition site_rad50_char (c : N) : res Z :=
  catch rad50_caught
    (if 128 <=? c then Crash "ValueError" else table_index (ascii_upper c))
    (Err ["invalid-character"]).

Fixpoint nmem (c : N) (l : list N) : bool := match l with [] => false | x :: xs => (x =? c) || nmem c xs end.

(* radix50.pack_to_int *)
Definition pack_to_int (s : list N) : res Z :=
  if (3 <? List.length s)%nat then Crash "AssertionError"
  else
    match (s ++ repeat 32 (3 - List.length s))%list with
    | [a; b; c] =>
      do x <- table_index a; do y <- table_index b; do z <- table_index c;
      Ok (x * 1600 + y * 40 + z)%Z
    | _ => Crash "ValueError:unpack"
    end.
(* parser.radix50_literal on the matched characters: truncate to 3, upper(), pack *)
Definition rad50_literal (s : list N) : res Z := pack_to_int (map ascii_upper (firstn 3 s)).

(* ---- int(s, base) ------------------------------------------------------------------------------------------ *)
(* a sufficient condition for int() to succeed: non-empty, ASCII alphanumerics, every digit below the base
   (anything else is treated as raising, which only makes the theorems stronger than needed) *)
Definition digit_val (c : N) : option N :=
  if (48 <=? c) && (c <=? 57) then Some (c - 48)
  else if (97 <=? c) && (c <=? 122) then Some (c - 87)
  else if (65 <=? c) && (c <=? 90) then Some (c - 55)
  else None.
Definition digit_ok (base : Z) (c : N) : bool :=
  match digit_val c with Some d => (Z.of_N d <? base)%Z | None => false end.
Definition py_int (s : list N) (base : Z) : res Z :=
  match s with
  | [] => Crash "ValueError"
  | _ => if forallb (digit_ok base) s
         then Ok (fold_left (fun acc c => match digit_val c with Some d => acc * base + Z.of_N d | None => acc end)%Z s 0%Z)
         else Crash "ValueError"
  end.
(* str.isdigit() restricted to the characters the lexer can hand over (all ASCII, see local_symbol_class) *)
Definition is_ascii_digit (c : N) : bool := (48 <=? c) && (c <=? 57).
(* parser.number, bare number: under num.isdigit(); the octal conversion only after the '8'/'9' branch returned *)
Definition site_bare_decimal (num : list N) : res Z := py_int num 10.
Definition site_bare_octal (num : list N) : res Z := py_int num 8.
Definition octal_guard (num : list N) : bool :=
  forallb is_ascii_digit num && negb (nmem 56 num) && negb (nmem 57 num) && negb (match num with [] => true | _ => false end).
Definition decimal_guard (num : list N) : bool :=
  forallb is_ascii_digit num && negb (match num with [] => true | _ => false end).
(* int(num[2:], base) in try/except ValueError *)
Definition site_c_style (digits : list N) (base : Z) : res Z := catch ["ValueError"] (py_int digits base) (Err []).

(* ---- dictionary lookup by pattern letter -------------------------------------------------------------------- *)
Definition dict_lookup (keys : list string) (k : string) : res unit :=
  if smem k keys then Ok tt else Crash "KeyError".
