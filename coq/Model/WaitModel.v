(* WaitModel -- fuelled model of lazy evaluation with cycle detection (pdpy11/deferred.py).
   NO proofs here (Proofs/WaitP.v).

   What is modelled, statement by statement:

     def wait(deferred):                                   [wait_top]
         seen = []
         polynomial_steps = 0
         while isinstance(deferred, BaseDeferred):
             if len(seen) >= N1 or polynomial_steps >= N2 or any(deferred is prev for prev in seen):
                 raise DeferredCycle()
             seen.append(deferred)
             value = deferred.wait()
             if isinstance(deferred, LinearPolynomial) and isinstance(value, LinearPolynomial):
                 polynomial_steps += 1
             deferred = value
         return deferred

     BaseDeferred.wait:  if try_compute.depth > 0 and id(self) in try_compute.not_ready_yet: raise NotReadyError()
                         with Awaiting(self):
                             try: return self._wait()
                             except NotReadyError:
                                 if try_compute.depth > 0: try_compute.not_ready_yet[id(self)] = self
                                 raise
     TryCompute.__enter__: if self.depth == 0: self.not_ready_yet = {}                    [clear_memo]

     Awaiting.__enter__: if self.deferred.is_awaiting: raise DeferredCycle(); is_awaiting = True
     Awaiting.__exit__ : is_awaiting = False               (on every exit path, also exceptions)
     Deferred._wait    : if settled: return value;  value = fn(); settled = True; return value
                         (an exception inside fn leaves the node unsettled)
     Promise._wait     : if not settled: not_ready(); raise Exception("... is not ready")
     TryCompute.__exit__: swallows NotReadyError and DeferredCycle (and nothing else)      [try_wait]

   NOT modelled: Awaiting.known_cycles / found_cycles_stack (fixes 22284d4, 2b465cd) and the coefficient guard of
   LinearPolynomial expansion (MAX_COEFFICIENT_BITS).  The frame-scoped cycle memo is written by remember_cycle(), called by
   BaseDeferred.wait on every DeferredCycle on its way out and where symbolic_product() *catches* the DeferredCycle of a
   factor and goes on with the other one; it is read by Awaiting.__enter__.  A read can only follow a write if some code
   goes on evaluating after a DeferredCycle was caught.  No fn of this model catches an exception: a DeferredCycle of a
   dependency unwinds to the outermost wait(), whose frame forgets everything it and its children remembered.  So on the
   graphs of this model the memo is inert (the correspondence runs confirm it on the real objects); its purpose -- cutting
   the 2**n retries of symbolic_product on rings -- lives in the nested-exception structure, which is covered by
   exploration only (rings through DAG chains must be rejected with recursive-definition within the watchdog) and by the
   reverse patches revert-C08-exponential-ring / -ring2.  tools/gens/gen_partial.py pins the protocol.

   A program's deferred objects are a finite graph: node k is
     NConst r      a Deferred/Promise that is already settled to r
     NFn deps g    an unsettled Deferred whose fn evaluates wait(d) for each d of deps, in order
                   (each with its own fresh `seen` list, as the Python function does), and then returns g(values)
     NUnsettled    a Promise nobody has settled
   and what a node yields (nres) is either a plain integer or another deferred object, which the loop in
   wait() then follows (this is how 'a = a' loops: the Deferred of a yields the Deferred of a). *)
From Coq Require Import List ZArith Bool Arith.
Import ListNotations.

Inductive nres := NVal (z : Z) | NFwd (j : nat).

Inductive node :=
| NConst (r : nres)
| NFn (deps : list nat) (g : list Z -> nres)
| NUnsettled.

Definition graph := list node.

(* the mutable part: Deferred.settled/value and BaseDeferred.is_awaiting of every object, and
   TryCompute.not_ready_yet (membership of id(object)) *)
Record state := mkState { settled : list (option nres); awaiting : list bool; memo : list bool }.

Definition init_state (G : graph) : state :=
  mkState (map (fun _ => None) G) (map (fun _ => false) G) (map (fun _ => false) G).

Fixpoint set_nth {A} (l : list A) (k : nat) (a : A) : list A :=
  match l, k with
  | [], _ => []
  | _ :: xs, O => a :: xs
  | x :: xs, S k' => x :: set_nth xs k' a
  end.

Definition set_await (st : state) (k : nat) (b : bool) : state :=
  mkState (settled st) (set_nth (awaiting st) k b) (memo st).
Definition set_settled (st : state) (k : nat) (r : nres) : state :=
  mkState (set_nth (settled st) k (Some r)) (awaiting st) (memo st).
Definition set_memo (st : state) (k : nat) : state :=
  mkState (settled st) (awaiting st) (set_nth (memo st) k true).
(* TryCompute.__enter__ at depth 0: self.not_ready_yet = {} *)
Definition clear_memo (st : state) : state :=
  mkState (settled st) (awaiting st) (map (fun _ => false) (memo st)).
Definition is_memo (st : state) (k : nat) : bool := nth k (memo st) false.
Definition is_await (st : state) (k : nat) : bool := nth k (awaiting st) false.
Definition get_settled (st : state) (k : nat) : option nres := nth k (settled st) None.

(* Python exceptions that can leave wait() *)
Inductive exn :=
| ECycle        (* DeferredCycle *)
| ENotReady     (* NotReadyError: an unsettled Promise met while try_compute.depth > 0 *)
| ECrash.       (* Exception("Promise ... is not ready") outside speculation, or a dangling reference *)

Inductive res :=
| RVal (z : Z) (st : state)
| RRaise (e : exn) (st : state)
| RFuel.

Inductive dres :=
| DDone (vals : list Z) (st : state)
| DRaise (e : exn) (st : state)
| DFuel.

(* vals = [wait(d) for d in deps], left to right, stopping at the first exception *)
Fixpoint eval_deps (rec : state -> nat -> res) (deps : list nat) (acc : list Z) (st : state) : dres :=
  match deps with
  | [] => DDone (rev acc) st
  | d :: ds =>
    match rec st d with
    | RVal z st' => eval_deps rec ds (z :: acc) st'
    | RRaise e st' => DRaise e st'
    | RFuel => DFuel
    end
  end.

Definition is_nr (e : exn) : bool := match e with ENotReady => true | _ => false end.

Section Wait.
  Variable use_memo : bool.    (* true: the code as it is (fix 9baed24); false: the same loop without the not_ready_yet memo *)
  Variable bound : nat.        (* N1, the literal in `len(seen) >= N1` of deferred.wait: Gen/GenPartial.v wait_seen_bound *)
  Variable bound2 : nat.       (* N2, the literal in `polynomial_steps >= N2`: Gen/GenPartial.v wait_poly_bound *)
  Variable isp : nat -> bool.  (* isinstance(node k, LinearPolynomial) *)
  Variable spec : bool.        (* try_compute.depth > 0 *)
  Variable G : graph.

  Inductive sres := SRes (r : nres) (st : state) | SRaise (e : exn) (st : state) | SFuel.

  (* BaseDeferred.wait:  if try_compute.depth > 0 and id(self) in try_compute.not_ready_yet: raise NotReadyError() *)
  Definition memo_hit (st : state) (i : nat) : bool := use_memo && spec && is_memo st i.
  (* ... except NotReadyError: if try_compute.depth > 0: try_compute.not_ready_yet[id(self)] = self; raise *)
  Definition memo_rec (e : exn) (st : state) (i : nat) : state :=
    if use_memo && spec && is_nr e then set_memo st i else st.

  (* one iteration of the while loop in wait(), then the rest of the loop *)
  (* polynomial_steps after the step from object i to the object j it yielded *)
  Definition next_p (p i j : nat) : nat := if isp i && isp j then S p else p.
  Definition stop_check (seen : list nat) (p i : nat) : bool :=
    (bound <=? length seen) || (bound2 <=? p) || existsb (Nat.eqb i) seen.

  Fixpoint wait_top (fuel : nat) (st : state) (seen : list nat) (p : nat) (i : nat) : res :=
    match fuel with
    | O => RFuel
    | S f =>
      match nth_error G i with
      | None => RRaise ECrash st
      | Some nd =>
        if stop_check seen p i then RRaise ECycle st
        else if memo_hit st i then RRaise ENotReady st        (* found not ready earlier in this speculation *)
        else if is_await st i then RRaise ECycle st           (* Awaiting.__enter__ *)
        else
          let st1 := set_await st i true in
          let r :=                                              (* self._wait() *)
            match nd with
            | NConst v => SRes v st1
            | NUnsettled => SRaise (if spec then ENotReady else ECrash) st1
            | NFn deps g =>
              match get_settled st1 i with
              | Some v => SRes v st1
              | None =>
                match eval_deps (fun s d => wait_top f s [] 0 d) deps [] st1 with
                | DDone vals st2 => let v := g vals in SRes v (set_settled st2 i v)
                | DRaise e st2 => SRaise e st2
                | DFuel => SFuel
                end
              end
            end in
          match r with
          | SFuel => RFuel
          | SRaise e st2 => RRaise e (memo_rec e (set_await st2 i false) i)   (* remember; Awaiting.__exit__ on the exception path *)
          | SRes v st2 =>
            let st3 := set_await st2 i false in                (* Awaiting.__exit__ *)
            match v with
            | NVal z => RVal z st3
            | NFwd j => wait_top f st3 (i :: seen) (next_p p i j) j   (* seen.append(deferred); count; next iteration *)
            end
          end
      end
    end.

  Definition wait (fuel : nat) (st : state) (i : nat) : res := wait_top fuel st [] 0 i.

End Wait.

(* with try_compute: return tmp.wait()  -- None when NotReadyError / DeferredCycle was swallowed *)
Inductive tres := TVal (z : Z) (st : state) | TSwallowed (st : state) | TCrash (st : state) | TFuel.
(* an outermost speculation: the memo starts empty *)
Definition try_wait (bound bound2 : nat) (isp : nat -> bool) (G : graph) (fuel : nat) (st : state) (i : nat) : tres :=
  match wait true bound bound2 isp true G fuel (clear_memo st) i with
  | RVal z st' => TVal z st'
  | RRaise ECycle st' | RRaise ENotReady st' => TSwallowed st'
  | RRaise ECrash st' => TCrash st'
  | RFuel => TFuel
  end.

(* fuel that always suffices (Proofs/WaitP.v: wait_terminates) *)
Definition fuel_bound (bound : nat) (G : graph) : nat := (length G) * (bound + 2) + (bound + 2).
