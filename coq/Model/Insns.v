(* Model/Insns.v -- executable model of pdpy11/insns.py: init(), the operand stubs,
   Instruction.compile_insn / get_opcode.  No proofs here.

   The model works on the abstract source-level operand forms of Spec/PDP11.v ([operand]); the
   classification of a token tree into these forms (hoist, the isinstance cascade of
   RegisterModeOperandStub.encode) is outside this model and tied by the end-to-end sweep.
   Python partiality is explicit: every assert / int(...) / list index of the modelled code is a
   [Crash]; reports.error is [Err].  Error identifiers are informative only. *)
From Coq Require Import ZArith List String Ascii Bool.
From Verif Require Import Base.Res Spec.PDP11 Gen.GenOpcodes.
Import ListNotations.
Open Scope string_scope.
Open Scope list_scope.
Open Scope Z_scope.

(* ------------------------------------------------------------------------------------------ *)
(* init(): pattern expansion *)
Definition chars (s : string) : list ascii := list_ascii_of_string s.
Definition ch (s : string) : ascii := match s with String c _ => c | EmptyString => Ascii.zero end.

Definition is_digit (c : ascii) : bool :=
  let n := nat_of_ascii c in Nat.leb 48 n && Nat.leb n 57.

(* bin(int(char, 8))[2:].rjust(3, "0") ; int('8', 8) raises ValueError *)
Definition oct3 (c : ascii) : res (list ascii) :=
  match (nat_of_ascii c - 48)%nat with
  | 0%nat => Ok (chars "000") | 1%nat => Ok (chars "001") | 2%nat => Ok (chars "010") | 3%nat => Ok (chars "011")
  | 4%nat => Ok (chars "100") | 5%nat => Ok (chars "101") | 6%nat => Ok (chars "110") | 7%nat => Ok (chars "111")
  | _ => Crash "init:int(char,8):ValueError"
  end.

(* for i, char in enumerate(oct_opcode_pattern): ...   [first] is (i == 0) *)
Fixpoint expand_go (cs : list ascii) (first is_binary : bool) : res (list ascii) :=
  match cs with
  | [] => Ok []
  | c :: cs' =>
      if Ascii.eqb c (ch "[") then expand_go cs' false true
      else if Ascii.eqb c (ch "]") then expand_go cs' false false
      else if negb (is_digit c) then
        do r <- expand_go cs' false is_binary;
        Ok ((if is_binary then [c] else [c; c; c]) ++ r)
      else if is_binary || first then
        do r <- expand_go cs' false is_binary; Ok (c :: r)
      else
        do b <- oct3 c; do r <- expand_go cs' false is_binary; Ok (b ++ r)
  end.

Definition expand (pat : string) : res (list ascii) :=
  do p <- expand_go (chars pat) true false;
  if Nat.eqb (List.length p) 16 then Ok p else Crash "init:assert len(opcode_pattern) == 16".

(* ------------------------------------------------------------------------------------------ *)
(* init(): operand stubs *)
Inductive stub_kind : Type :=
| SkRegister | SkRegMode | SkFpRM | SkFpAcc | SkOffset | SkImmediate.

Record stub : Type := mkStub {
  sk : stub_kind;
  pchar : ascii;
  bit_indexes : list nat;
  unsigned_ : bool     (* False for the classes that have no such attribute *)
}.

Definition count_char (c : ascii) (p : list ascii) : nat :=
  List.length (filter (Ascii.eqb c) p).
Definition has_char (c : ascii) (p : list ascii) : bool := existsb (Ascii.eqb c) p.

(* list(range(bitness - 1, -1, -1)) *)
Definition down_from (n : nat) : list nat := rev (seq 0 n).

Definition allowed_final (c : ascii) : bool := existsb (Ascii.eqb c) (chars "01234567sSdDoOiI").

Definition infer_stubs (p : list ascii) : res (list stub) :=
  let s := ch "s" in let S := ch "S" in let d := ch "d" in let D := ch "D" in
  let cnt_s := count_char s p in
  do ops1 <-
    (if Nat.eqb cnt_s 0 then Ok []
     else if Nat.eqb cnt_s 3 then Ok [mkStub SkRegister s [2;1;0]%nat false]
     else if Nat.eqb cnt_s 6 then Ok [mkStub SkRegMode s [5;4;3;2;1;0]%nat false]
     else if Nat.eqb cnt_s 12 then Ok [mkStub SkRegMode s [5;4;3;2;1;0]%nat false;
                                       mkStub SkRegMode s [11;10;9;8;7;6]%nat false]
     else Crash "init:assert False (cnt_s)");
  let cnt_fs := count_char S p in
  do ops2 <-
    (if Nat.eqb cnt_fs 0 then Ok ops1
     else if Nat.eqb cnt_fs 2 then Ok (ops1 ++ [mkStub SkFpAcc S [1;0]%nat false])
     else if Nat.eqb cnt_fs 6 then Ok (ops1 ++ [mkStub SkFpRM S [5;4;3;2;1;0]%nat false])
     else if Nat.eqb cnt_fs 8 then Ok (ops1 ++ [mkStub SkFpRM S [7;6;5;4;3;2]%nat false;
                                                 mkStub SkFpAcc S [1;0]%nat false])
     else Crash "init:assert False (cnt_float_s)");
  let cnt_d := count_char d p in
  do ops3 <-
    (if Nat.eqb cnt_d 0 then Ok ops2
     else if Nat.eqb cnt_d 3 then Ok (ops2 ++ [mkStub SkRegister d [2;1;0]%nat false])
     else if Nat.eqb cnt_d 6 then Ok (ops2 ++ [mkStub SkRegMode d [5;4;3;2;1;0]%nat false])
     else Crash "init:assert False (cnt_d)");
  let cnt_fd := count_char D p in
  do ops4 <-
    (if Nat.eqb cnt_fd 0 then Ok ops3
     else if Nat.eqb cnt_fd 2 then Ok (ops3 ++ [mkStub SkFpAcc D [1;0]%nat false])
     else if Nat.eqb cnt_fd 6 then Ok (ops3 ++ [mkStub SkFpRM D [5;4;3;2;1;0]%nat false])
     else Crash "init:assert False (cnt_float_d)");
  let has_o := has_char (ch "o") p || has_char (ch "O") p in
  let ops5 :=
    if has_o then
      let uns := has_char (ch "O") p in
      let c := if uns then ch "O" else ch "o" in
      let st := mkStub SkOffset c (down_from (count_char c p)) uns in
      if Nat.eqb cnt_d 0 then ops4 ++ [st] else st :: ops4
    else ops4 in
  do ops6 <-
    (if has_char (ch "i") p || has_char (ch "I") p then
       if has_o then Crash "init:assert no o/O with i/I"
       else
         let uns := has_char (ch "I") p in
         let c := if uns then ch "I" else ch "i" in
         Ok (mkStub SkImmediate c (down_from (count_char c p)) uns :: ops5)
     else Ok ops5);
  if forallb allowed_final p then Ok ops6 else Crash "init:assert all(c in '01234567sSdDoOiI')".

Record insn : Type := mkInsn { opcode_pattern : list ascii; stubs : list stub }.

Definition init_entry (pat : string) : res insn :=
  do p <- expand pat; do st <- infer_stubs p; Ok (mkInsn p st).

(* instructions[name]: a later duplicate key would win in the dict; the translator refuses
   duplicate keys, so the first hit is the entry *)
Fixpoint lookup_pat (m : string) (t : list (string * string)) : option string :=
  match t with
  | [] => None
  | (k, v) :: t' => if String.eqb k m then Some v else lookup_pat m t'
  end.

(* ------------------------------------------------------------------------------------------ *)
(* get_opcode *)
Fixpoint positions_from (c : ascii) (p : list ascii) (i : nat) : list nat :=
  match p with
  | [] => []
  | x :: p' => if Ascii.eqb x c then i :: positions_from c p' (S i) else positions_from c p' (S i)
  end.
(* indexes_of_char[c] *)
Definition indexes_of_char (c : ascii) (p : list ascii) : list nat := positions_from c p 0.

Fixpoint set_nth {A} (n : nat) (x : A) (l : list A) : option (list A) :=
  match n, l with
  | O, _ :: t => Some (x :: t)
  | S n', h :: t => match set_nth n' x t with Some t' => Some (h :: t') | None => None end
  | _, [] => None
  end.

Definition bit_char (value : Z) (i : nat) : ascii :=
  if Z.testbit value (Z.of_nat i) then ch "1" else ch "0".

(* for i, index in enumerate(stub.bit_indexes):
       opcode_pattern[indexes_of_char[stub.pattern_char][index]] = str((value >> i) & 1) *)
Fixpoint subst_bits (orig cur : list ascii) (c : ascii) (idxs : list nat) (i : nat) (value : Z) : res (list ascii) :=
  match idxs with
  | [] => Ok cur
  | index :: rest =>
      match nth_error (indexes_of_char c orig) index with
      | None => Crash "get_opcode:IndexError"
      | Some pos =>
          match set_nth pos (bit_char value i) cur with
          | None => Crash "get_opcode:IndexError"
          | Some cur' => subst_bits orig cur' c rest (S i) value
          end
      end
  end.

Fixpoint subst_all (orig cur : list ascii) (reps : list (stub * Z)) : res (list ascii) :=
  match reps with
  | [] => Ok cur
  | (st, v) :: reps' =>
      do cur' <- subst_bits orig cur (pchar st) (bit_indexes st) 0 v;
      subst_all orig cur' reps'
  end.

(* int(str, 2) after "assert str.isdigit()" *)
Fixpoint bin_value (p : list ascii) (acc : Z) : res Z :=
  match p with
  | [] => Ok acc
  | c :: p' =>
      if Ascii.eqb c (ch "0") then bin_value p' (2 * acc)
      else if Ascii.eqb c (ch "1") then bin_value p' (2 * acc + 1)
      else if is_digit c then Crash "get_opcode:int(str,2):ValueError"
      else Crash "get_opcode:assert isdigit"
  end.

Definition get_opcode (p : list ascii) (reps : list (stub * Z)) : res Z :=
  do q <- subst_all p p reps; bin_value q 0.

(* ------------------------------------------------------------------------------------------ *)
(* the operand stubs *)
Definition bitness (st : stub) : Z := Z.of_nat (List.length (bit_indexes st)).

(* try_as_register: a register name gives 0..7; %n goes through
   get_as_int(bitness=3, unsigned=True) *)
Definition reg_val (r : Z) : res Z :=
  if r <? 0 then Err ["value-out-of-bounds"]
  else if r <=? - 2 ^ 3 then Err ["value-out-of-bounds"]
  else if r >=? 2 ^ 3 then Err ["value-out-of-bounds"]
  else Ok (r mod 2 ^ 3).

(* get_as_int(..., bitness=16, unsigned=False) then struct.pack("<H", .) *)
Definition int16 (x : Z) : res Z :=
  if x <=? - 2 ^ 16 then Err ["value-out-of-bounds"]
  else if x >=? 2 ^ 16 then Err ["value-out-of-bounds"]
  else Ok (x mod 2 ^ 16).

(* wait(operand.resolve(state) - state["rel_address"] - 2) % (2 ** 16) *)
Definition enc_rel (target rel : Z) : Z := (target - rel - 2) mod 2 ^ 16.

Definition enc_register (o : operand) : res (Z * list Z) :=
  match o with
  | OReg r => do r <- reg_val r; Ok (r, [])
  | _ => Err ["invalid-addressing"]
  end.

Definition enc_regmode (o : operand) (rel : Z) : res (Z * list Z) :=
  match o with
  | OReg r => do r <- reg_val r; Ok (r, [])
  | ORegDef r => do r <- reg_val r; Ok (Z.lor 8 r, [])
  | OAutoInc r => do r <- reg_val r; Ok (Z.lor 16 r, [])
  | OAutoIncDef r => do r <- reg_val r; Ok (Z.lor 24 r, [])
  | OAutoDec r => do r <- reg_val r; Ok (Z.lor 32 r, [])
  | OAutoDecDef r => do r <- reg_val r; Ok (Z.lor 40 r, [])
  | OIndexDef x r => do r <- reg_val r; do w <- int16 x; Ok (Z.lor 56 r, [w])
  | OIndex x r => do r <- reg_val r; do w <- int16 x; Ok (Z.lor 48 r, [w])
  | OImm v => do w <- int16 v; Ok (23, [w])
  | OAbs v => do w <- int16 v; Ok (31, [w])
  | ORelDef t => Ok (63, [enc_rel t rel])
  | ORel t => Ok (55, [enc_rel t rel])
  | OAcc _ => Err ["undefined-symbol"]      (* acN is an ordinary (undefined) symbol here *)
  end.

Definition enc_fprm (o : operand) (rel : Z) : res (Z * list Z) :=
  match o with
  | OAcc n => if (0 <=? n) && (n <=? 5) then Ok (n, []) else Err ["undefined-symbol"]
  | OReg r => do r <- reg_val r; if r <? 6 then Ok (r, []) else Err ["implicit-accumulator"]
  | _ => enc_regmode o rel
  end.

Definition enc_fpacc (st : stub) (o : operand) : res (Z * list Z) :=
  match o with
  | OAcc n =>
      if (0 <=? n) && (n <=? 5) then
        if n >=? 2 ^ bitness st then Err ["invalid-addressing"] else Ok (n, [])
      else Err ["invalid-addressing"]
  | _ => Err ["invalid-addressing"]
  end.

(* the inner fn of OffsetOperandStub.encode *)
Definition enc_offset (unsigned : bool) (bits : Z) (target rel : Z) : res Z :=
  let offset := target - rel in
  let u := if unsigned then 1 else 0 in
  let e1 :=
    if unsigned && (offset >? 0) then ["branch-out-of-bounds"]
    else
      let min_offset := - 2 ^ (bits + u) + 2 * u in
      let max_offset := if unsigned then 0 else 2 ^ bits - 2 in
      if (min_offset <=? offset) && (offset <=? max_offset) then [] else ["branch-out-of-bounds"] in
  let e2 := if offset mod 2 =? 1 then ["odd-branch"] else [] in
  match e1 ++ e2 with
  | [] => Ok (if unsigned then (- offset) / 2 else offset / 2)
  | es => Err es
  end.

(* the inner fn of ImmediateOperandStub.encode *)
Definition enc_imm (unsigned : bool) (bits : Z) (value : Z) : res Z :=
  if unsigned && (value <? 0) then Err ["value-out-of-bounds"]
  else
    let min_value := if unsigned then 0 else - 2 ^ bits + 1 in
    let max_value := 2 ^ bits - 1 in
    if (min_value <=? value) && (value <=? max_value) then Ok (value mod 2 ^ bits)
    else Err ["value-out-of-bounds"].

Definition enc_stub (st : stub) (o : operand) (rel : Z) : res (Z * list Z) :=
  match sk st with
  | SkRegister => enc_register o
  | SkRegMode => enc_regmode o rel
  | SkFpRM => enc_fprm o rel
  | SkFpAcc => enc_fpacc st o
  | SkOffset =>
      match o with
      | ORel t => do f <- enc_offset (unsigned_ st) (bitness st) t rel; Ok (f, [])
      | _ => Err ["unexpected-value"]
      end
  | SkImmediate =>
      match o with
      | ORel v | OImm v => do f <- enc_imm (unsigned_ st) (bitness st) v; Ok (f, [])
      | _ => Err ["unexpected-value"]
      end
  end.

(* ------------------------------------------------------------------------------------------ *)
(* compile_insn.  [ext] = operands_encoding so far, in words; rel_address =
   emit_address + 2 + len(operands_encoding) *)
Fixpoint enc_operands (sts : list stub) (ops : list operand) (addr : Z) (ext : list Z)
  : res (list Z * list Z) :=
  match sts, ops with
  | st :: sts', o :: ops' =>
      do ve <- enc_stub st o (addr + 2 + 2 * Z.of_nat (List.length ext));
      do r <- enc_operands sts' ops' addr (ext ++ snd ve);
      Ok (fst ve :: fst r, snd r)
  | _, _ => Ok ([], ext)      (* zip stops at the shorter list; lengths were compared before *)
  end.

Definition compile_with (i : insn) (ops : list operand) (addr : Z) : res (list Z) :=
  if negb (Nat.eqb (List.length ops) (List.length (stubs i))) then Err ["wrong-operands"]
  else
    do ve <- enc_operands (stubs i) ops addr [];
    do w <- get_opcode (opcode_pattern i) (combine (stubs i) (fst ve));
    Ok (w :: snd ve).

Definition compile_insn (m : string) (ops : list operand) (addr : Z) : res (list Z) :=
  match lookup_pat m opcode_table with
  | None => Err ["unknown-insn"]
  | Some pat => do i <- init_entry pat; compile_with i ops addr
  end.
