(* Model of the running address in Compiler.compile_block / compile_and_link_files / .repeat /
   .include (compiler.py:44, metacommands.py repeat+include, deferred.py length()).

   What the code does per statement that yields a chunk:
       data += chunk
       addr += chunk.length()  if the chunk is still deferred   (SizedDeferred: the *announced* size;
                                                                   Deferred: the length of its final value;
                                                                   Concatenator: the sum over its parts)
       addr += len(chunk)      if the chunk was computed at once
   Labels, assignments, .link, make_* ... yield nothing.  A .repeat body / an included file is
   compiled by a nested compile_block whose chunks are laid out one after another starting at the
   address the parent statement was given; the parent's own advance is the length() of the
   concatenation, i.e. the sum of the nested advances (announced sizes again, not final lengths).

   Addresses are integers relative to whatever the block was started at (the link base cancels).
   No proofs here. *)
From Coq Require Import List ZArith Bool.
Import ListNotations.
Open Scope Z_scope.

Inductive stmt : Type :=
| Leaf (ready : bool) (announced : option Z) (bytes : list Z)
    (* ready: the chunk was computed when the statement was compiled;
       announced: Some n for SizedDeferred(n, ...), None for a plain Deferred *)
| Silent                                  (* label, assignment, .link, directives with no output *)
| Nested (body : list stmt).              (* .repeat (all copies in sequence) or .include *)

Definition zlen {A} (l : list A) : Z := Z.of_nat (length l).

(* how far the running address moves *)
Definition adv_leaf (ready : bool) (announced : option Z) (bytes : list Z) : Z :=
  if ready then zlen bytes else match announced with Some n => n | None => zlen bytes end.

Fixpoint adv (s : stmt) : Z :=
  match s with
  | Leaf r a bs => adv_leaf r a bs
  | Silent => 0
  | Nested body => (fix go (l : list stmt) : Z := match l with [] => 0 | x :: xs => adv x + go xs end) body
  end.
Definition adv_list (l : list stmt) : Z := fold_right (fun s acc => adv s + acc) 0 l.

(* the bytes that end up in the image *)
Fixpoint out (s : stmt) : list Z :=
  match s with
  | Leaf _ _ bs => bs
  | Silent => []
  | Nested body => (fix go (l : list stmt) : list Z := match l with [] => [] | x :: xs => out x ++ go xs end) body
  end.
Definition out_list (l : list stmt) : list Z := flat_map out l.

(* the trace: for every Leaf and Silent statement, in emission order, the address it was given
   and the bytes it produced (Silent: none).  This is what the PDPY11_VERIF hook records. *)
Fixpoint place (a : Z) (s : stmt) : list (Z * list Z) :=
  match s with
  | Leaf _ _ bs => [(a, bs)]
  | Silent => [(a, [])]
  | Nested body =>
      (fix go (a : Z) (l : list stmt) : list (Z * list Z) :=
         match l with [] => [] | x :: xs => place a x ++ go (a + adv x) xs end) a body
  end.
Fixpoint place_list (a : Z) (l : list stmt) : list (Z * list Z) :=
  match l with [] => [] | x :: xs => place a x ++ place_list (a + adv x) xs end.

(* the hypothesis the code relies on: a size announced in advance is the size finally produced *)
Definition leaf_consistent (ready : bool) (announced : option Z) (bytes : list Z) : bool :=
  adv_leaf ready announced bytes =? zlen bytes.
Fixpoint consistent (s : stmt) : bool :=
  match s with
  | Leaf r a bs => leaf_consistent r a bs
  | Silent => true
  | Nested body => (fix go (l : list stmt) : bool := match l with [] => true | x :: xs => consistent x && go xs end) body
  end.
Definition consistent_list (l : list stmt) : bool := forallb consistent l.

(* linked files: each file's block starts where the previous one's announced advance ended *)
Fixpoint place_files (a : Z) (files : list (list stmt)) : list (Z * list Z) :=
  match files with [] => [] | f :: fs => place_list a f ++ place_files (a + adv_list f) fs end.
Definition out_files (files : list (list stmt)) : list Z := flat_map out_list files.

(* one flat block as the hook sees it: per statement (ready, announced, number of bytes) *)
Definition flat_block_addrs (start : Z) (l : list (bool * option Z * Z)) : list Z :=
  (fix go (a : Z) (l : list (bool * option Z * Z)) : list Z :=
     match l with
     | [] => [a]
     | (r, an, n) :: xs => a :: go (a + (if r then n else match an with Some k => k | None => n end)) xs
     end) start l.
