(* Model of the error latch of pdpy11 (reports.py) composed from the decision functions that
   tools/gens/gen_reports.py regenerates from the source (Gen/GenReports.v).  No proofs here.

   A [trace] is what the body of one `with handle_reports(FilterHandler(h, wc)):` block does, as
   far as the latch can see it: it issues reports, returns, or raises.  Execution stops at the
   first event that leaves the body (Return, a raise, a critical report). *)
From Coq Require Import String List NArith ZArith Bool.
From Verif Require Import Gen.GenReports Spec.ReportSpec.
Import ListNotations.

Inductive event :=
| Report (p : priority) (id : string)
| RaiseRecoverable            (* raise reports.RecoverableError(..) that nothing catches inside the block *)
| RaiseUnrecoverable          (* raise reports.UnrecoverableError() written directly in the body *)
| RaiseOther (tag : N)        (* any other exception *)
| Return.

(* how a `with` block is left *)
Inductive leave := LNormal | LRaise (e : exn).

Record body_result := mk_body
  { b_latch : bool                              (* is_error_condition of the handle_reports instance *)
  ; b_delivered : list (priority * string)      (* calls that reached the nested handler, in order *)
  ; b_exc : option exn                          (* exception that leaves the body, if any *)
  ; b_executed : nat }.                         (* number of events that were executed *)

Definition delivered_of (fa : filter_action) (p : priority) (id : string) : list (priority * string) :=
  match fa with FDeliver => [(p, id)] | _ => [] end.

(* emit_report for one report: handler(...) first (FilterHandler on top of the nested handler),
   then the latch, then the raise for a critical one *)
Fixpoint run_body (wc : dict) (tr : list event) : body_result :=
  match tr with
  | [] => mk_body false [] None 0
  | Return :: _ => mk_body false [] None 1
  | RaiseRecoverable :: _ => mk_body false [] (Some ERecoverable) 1
  | RaiseUnrecoverable :: _ => mk_body false [] (Some EUnrecoverable) 1
  | RaiseOther t :: _ => mk_body false [] (Some (EOther t)) 1
  | Report p id :: rest =>
      match filter_decision wc p id with
      | FKeyError => mk_body false [] (Some EKey) 1     (* the handler call itself raised *)
      | fa =>
          match emit_raises p with
          | Some e => mk_body (emit_sets_latch p) (delivered_of fa p id) (Some e) 1
          | None => let r := run_body wc rest in
                    mk_body (emit_sets_latch p || b_latch r) (delivered_of fa p id ++ b_delivered r)
                            (b_exc r) (S (b_executed r))
          end
      end
  end.

(* Python's rule for the value returned by __exit__, after the decision of handle_reports.__exit__ *)
Definition with_leave (act : exit_action) (exc : option exn) : leave :=
  match act with
  | XRaise e => LRaise e
  | XReturn sw => match exc with
                  | None => LNormal
                  | Some e => if sw then LNormal else LRaise e
                  end
  end.

Record run_result := mk_run
  { r_leave : leave; r_latch : bool; r_delivered : list (priority * string); r_executed : nat }.

(* [swallow]: what the nested handler's __exit__ returned (False when it has none) *)
Definition run_with_sw (swallow : bool) (wc : dict) (tr : list event) : run_result :=
  let b := run_body wc tr in
  mk_run (with_leave (hr_exit_decision (b_latch b) swallow (b_exc b)) (b_exc b))
         (b_latch b) (b_delivered b) (b_executed b).

(* main_cli: FilterHandler.__exit__ returns False because neither BareHandler nor GraphicalHandler
   has an __exit__ (checked by the translator) *)
Definition run_with : dict -> list event -> run_result := run_with_sw false.

(* the events that are executed: the prefix up to and including the first one that leaves the body *)
Fixpoint executed (tr : list event) : list event :=
  match tr with
  | [] => []
  | Report p id :: rest => match emit_raises p with
                           | Some _ => [Report p id]
                           | None => Report p id :: executed rest
                           end
  | ev :: _ => [ev]
  end.

Fixpoint reports_of (tr : list event) : list (priority * string) :=
  match tr with
  | [] => []
  | Report p id :: rest => (p, id) :: reports_of rest
  | _ :: rest => reports_of rest
  end.

Definition is_warning (p : priority) : bool := priority_eqb p PWarning.

(* the three Report objects of reports.py are the three severities of the Spec *)
Definition sev_of (p : priority) : severity :=
  match p with PError => SevError | PCritical => SevCritical | PWarning => SevWarning end.
Definition has_error (rs : list (priority * string)) : bool :=
  existsb (fun r => error_severity (sev_of (fst r))) rs.

(* ---- main_cli: two blocks (parse + compile + link; emit_files), outputs only afterwards *)
Definition cli_status_of (l : leave) : Z :=
  match l with
  | LNormal => 0%Z
  | LRaise EUnrecoverable => cli_exit_on_unrecoverable
  | LRaise _ => cli_exit_on_internal_error
  end.

Record cli_result := mk_cli
  { c_status : Z
  ; c_outputs_written : bool                    (* control reaches the code after the two blocks *)
  ; c_delivered : list (priority * string) }.

Definition cli_run (args : list string) (tr1 tr2 : list event) : cli_result :=
  let wc := warning_control_of args in
  let r1 := run_with wc tr1 in
  match r_leave r1 with
  | LNormal => let r2 := run_with wc tr2 in
               mk_cli (cli_status_of (r_leave r2))
                      (match r_leave r2 with LNormal => true | _ => false end)
                      (r_delivered r1 ++ r_delivered r2)
  | l => mk_cli (cli_status_of l) false (r_delivered r1)
  end.
