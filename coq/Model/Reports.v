(* Model of the error latch of pdpy11 (reports.py) composed from the decision functions that
   tools/gens/gen_reports.py regenerates from the source (Gen/GenReports.v).  No proofs here.

   A [trace] is what the body of one `with handle_reports(FilterHandler(h, wc)):` block does, as
   far as the latch can see it: it issues reports, returns, or raises.  Execution stops at the
   first event that leaves the body (Return, a raise, a critical report). *)
From Coq Require Import String List NArith ZArith Bool.
From Verif Require Import Gen.GenReports Spec.ReportSpec.
Import ListNotations.

Inductive event :=
| Report (p : priority) (id : string)
| RaiseRecoverable            (* raise reports.RecoverableError(..) that nothing catches inside the block *)
| RaiseUnrecoverable          (* raise reports.UnrecoverableError() written directly in the body *)
| RaiseOther (tag : N)        (* any other exception *)
| Return.

(* how a `with` block is left *)
Inductive leave := LNormal | LRaise (e : exn).

Record body_result := mk_body
  { b_latch : bool                              (* is_error_condition of the handle_reports instance *)
  ; b_delivered : list (priority * string)      (* calls that reached the nested handler, in order *)
  ; b_exc : option exn                          (* exception that leaves the body, if any *)
  ; b_executed : nat }.                         (* number of events that were executed *)

Definition delivered_of (fa : filter_action) (p : priority) (id : string) : list (priority * string) :=
  match fa with FDeliver => [(p, id)] | _ => [] end.

(* emit_report for one report: handler(...) first (FilterHandler on top of the nested handler),
   then the latch, then the raise for a critical one *)
Fixpoint run_body (wc : dict) (tr : list event) : body_result :=
  match tr with
  | [] => mk_body false [] None 0
  | Return :: _ => mk_body false [] None 1
  | RaiseRecoverable :: _ => mk_body false [] (Some ERecoverable) 1
  | RaiseUnrecoverable :: _ => mk_body false [] (Some EUnrecoverable) 1
  | RaiseOther t :: _ => mk_body false [] (Some (EOther t)) 1
  | Report p id :: rest =>
      match filter_decision wc p id with
      | FKeyError => mk_body false [] (Some EKey) 1     (* the handler call itself raised *)
      | fa =>
          match emit_raises p with
          | Some e => mk_body (emit_sets_latch p) (delivered_of fa p id) (Some e) 1
          | None => let r := run_body wc rest in
                    mk_body (emit_sets_latch p || b_latch r) (delivered_of fa p id ++ b_delivered r)
                            (b_exc r) (S (b_executed r))
          end
      end
  end.

(* Python's rule for the value returned by __exit__, after the decision of handle_reports.__exit__ *)
Definition with_leave (act : exit_action) (exc : option exn) : leave :=
  match act with
  | XRaise e => LRaise e
  | XReturn sw => match exc with
                  | None => LNormal
                  | Some e => if sw then LNormal else LRaise e
                  end
  end.

Record run_result := mk_run
  { r_leave : leave; r_latch : bool; r_delivered : list (priority * string); r_executed : nat }.

(* [swallow]: what the nested handler's __exit__ returned (False when it has none) *)
Definition run_with_sw (swallow : bool) (wc : dict) (tr : list event) : run_result :=
  let b := run_body wc tr in
  mk_run (with_leave (hr_exit_decision (b_latch b) swallow (b_exc b)) (b_exc b))
         (b_latch b) (b_delivered b) (b_executed b).

(* main_cli: FilterHandler.__exit__ returns False because neither BareHandler nor GraphicalHandler
   has an __exit__ (checked by the translator) *)
Definition run_with : dict -> list event -> run_result := run_with_sw false.

(* the events that are executed: the prefix up to and including the first one that leaves the body *)
Fixpoint executed (tr : list event) : list event :=
  match tr with
  | [] => []
  | Report p id :: rest => match emit_raises p with
                           | Some _ => [Report p id]
                           | None => Report p id :: executed rest
                           end
  | ev :: _ => [ev]
  end.

Fixpoint reports_of (tr : list event) : list (priority * string) :=
  match tr with
  | [] => []
  | Report p id :: rest => (p, id) :: reports_of rest
  | _ :: rest => reports_of rest
  end.

Definition is_warning (p : priority) : bool := priority_eqb p PWarning.

(* the three Report objects of reports.py are the three severities of the Spec *)
Definition sev_of (p : priority) : severity :=
  match p with PError => SevError | PCritical => SevCritical | PWarning => SevWarning end.
Definition has_error (rs : list (priority * string)) : bool :=
  existsb (fun r => error_severity (sev_of (fst r))) rs.

(* ---- main_cli.  Structure (checked by the translator):
     [unknown --charset / unreadable source: exit 1, no report]
     block 1: parse + compile + link                          (no file is written)
     block 2: Compiler.emit_files: one write per make_* file, IN the block; a failed write is
              reported (error io-error / value-out-of-bounds) and the loop goes on to the next file
     after the blocks: the -o / --implicit-bin file, then the listing; a failed write prints a
              plain message and exits 1 WITHOUT a report (struct.error, IOError)
   What the writes do is input ([cli_env]): the model does not know the file system. *)
Definition cli_status_of (l : leave) : Z :=
  match l with
  | LNormal => 0%Z
  | LRaise EUnrecoverable => cli_exit_on_unrecoverable
  | LRaise _ => cli_exit_on_internal_error
  end.

Inductive make_write :=
| WOk                        (* the file is written *)
| WReported (id : string)    (* the write (or the container format) fails: reports.error(id, ...), next file *)
| WCrash.                    (* any other exception: leaves emit_files *)
Inductive post_write :=
| PNone                      (* nothing to write (no -o / no --lst / no output file to name the listing after) *)
| POk
| PFail                      (* struct.error / IOError: message, sys.exit(1), no report *)
| PCrash.                    (* any other exception: the internal-error path *)
Record cli_env := mk_env
  { e_pre_fail : bool        (* unknown --charset, or a source file that cannot be read *)
  ; e_make : list make_write (* the make_* files, in source order *)
  ; e_out : post_write
  ; e_lst : post_write }.

Fixpoint emit_trace (ws : list make_write) : list event :=
  match ws with
  | [] => [Return]
  | WOk :: r => emit_trace r
  | WReported id :: r => Report PError id :: emit_trace r
  | WCrash :: _ => [RaiseOther 2]
  end.
(* files are numbered: make_* files 0..n-1 in source order, the -o file n, the listing n+1 *)
Fixpoint emit_written (i : nat) (ws : list make_write) : list nat :=
  match ws with
  | [] => []
  | WOk :: r => i :: emit_written (S i) r
  | WReported _ :: r => emit_written (S i) r
  | WCrash :: _ => []
  end.

(* Two make_* directives may name the same file (the path, after normalisation, is a number here).  emit_files walks
   the LIST of directives in source order, so on one path the last successful writer wins.
   [disk p] = which directive's output the file p holds (None: untouched). *)
Fixpoint emit_disk (i : nat) (ws : list (N * make_write)) (disk : N -> option nat) : N -> option nat :=
  match ws with
  | [] => disk
  | (p, WOk) :: r => emit_disk (S i) r (fun q => if N.eqb q p then Some i else disk q)
  | (_, WReported _) :: r => emit_disk (S i) r disk
  | (_, WCrash) :: _ => disk
  end.

Record cli_result := mk_cli
  { c_status : Z
  ; c_written : list nat                        (* files created or overwritten by the run *)
  ; c_error_reported : bool                     (* an error-severity report was issued (the latch of a block) *)
  ; c_delivered : list (priority * string) }.

Definition cli_run (args : list string) (tr1 : list event) (env : cli_env) : cli_result :=
  if e_pre_fail env then mk_cli cli_exit_before_assembly [] false [] else
  let wc := warning_control_of args in
  let r1 := run_with wc tr1 in
  match r_leave r1 with
  | LNormal =>
      let r2 := run_with wc (emit_trace (e_make env)) in
      let w2 := emit_written 0 (e_make env) in
      let n := length (e_make env) in
      let lat := r_latch r1 || r_latch r2 in
      let dl := (r_delivered r1 ++ r_delivered r2)%list in
      match r_leave r2 with
      | LNormal =>
          match e_out env with
          | PFail => mk_cli cli_exit_on_write_error w2 lat dl
          | PCrash => mk_cli cli_exit_on_internal_error w2 lat dl
          | o => let w3 := (w2 ++ (match o with POk => [n] | _ => [] end))%list in
                 match e_lst env with
                 | PNone => mk_cli 0 w3 lat dl
                 | POk => mk_cli 0 (w3 ++ [S n])%list lat dl
                 | PFail => mk_cli cli_exit_on_write_error w3 lat dl
                 | PCrash => mk_cli cli_exit_on_internal_error w3 lat dl
                 end
          end
      | l => mk_cli (cli_status_of l) w2 lat dl
      end
  | l => mk_cli (cli_status_of l) [] (r_latch r1) (r_delivered r1)
  end.

(* the environment in which every requested write succeeds *)
Definition all_ok (nmake : nat) (out lst : bool) : cli_env :=
  mk_env false (repeat WOk nmake) (if out then POk else PNone) (if lst then POk else PNone).
