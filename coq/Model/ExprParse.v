(* Model of pdpy11/parser.py: expression(), expression_literal_rec(), expression_literal() on a
   token list, and of the evaluation (resolve) of the resulting tree on integer operands (C05).
   Precedence, associativity and the operator bodies come from Gen/GenOperators.v.  No proofs here.

   A token list stands for the text "t1 t2 ... tn" (single blanks).  Where the code looks at
   characters (terminators of ^x...x brackets, Parser.literal) the model looks at the token's text. *)
From Coq Require Import String Ascii List ZArith NArith Bool.
From Verif Require Import Base.Res Spec.ExprTokens Gen.GenOperators Model.Lexer.
Import ListNotations.
Open Scope string_scope.

(* ---- the parser's tree ---------------------------------------------------------------------- *)
Inductive ptree :=
| PNum (v : Z) (invalid_base8 reported : bool)       (* types.Number *)
| PSym (s : string) (label : bool)                    (* types.Symbol, is_necessarily_label *)
| PDot                                                (* types.InstructionPointer *)
| PChar (cs : list N)                                 (* types.CharLiteral: the string *)
| PRad50 (v : N) (reported : list string)             (* types.Number made by radix50_literal *)
| PInfix (c : string) (l r : ptree)                   (* operators.InfixOperator subclass for c *)
| PPrefix (c : string) (x : ptree)
| PPostfix (c : string) (x : ptree)
| PCall (f x : ptree)                                 (* operators.call *)
| PParen (opening : string) (e : ptree).              (* types.ParenthesizedExpression *)

(* ---- results of a parser ---------------------------------------------------------------------- *)
Inductive pres (A : Type) :=
| POk (a : A)
| PNo                      (* reports.RecoverableError: this alternative does not match *)
| PCrit (id : string)      (* reports.critical(id, ...): the assembly stops *)
| PCrash (site : string)   (* a Python exception that is not a report *)
| PFuel.
Arguments POk {A} a.
Arguments PNo {A}.
Arguments PCrit {A} id.
Arguments PCrash {A} site.
Arguments PFuel {A}.

(* ---- operator table lookups ------------------------------------------------------------------ *)
Definition kind_eqb (a b : op_kind) : bool :=
  match a, b with KPrefix, KPrefix | KInfix, KInfix | KPostfix, KPostfix => true | _, _ => false end.

(* operators.operators[kind][char] *)
Definition lookup_op (k : op_kind) (c : string) : option op_row :=
  find (fun r => kind_eqb (or_kind r) k && String.eqb (or_char r) c) operator_table.

(* ---- text of tokens ----------------------------------------------------------------------------*)
Definition starts_with (c : ascii) (s : string) : bool :=
  match s with String d _ => Ascii.eqb c d | EmptyString => false end.

(* the text at this position begins with one of the closing characters of the enclosing ^x...x brackets *)
Definition terminated (terms : list ascii) (s : string) : bool :=
  existsb (fun c => starts_with c s) terms.

(* caret_parenthesis = \^[$_=[\]\\{}|:/<>?] *)
Definition caret_bracket_chars : list ascii :=
  ["$"; "_"; "="; "["; "]"; "\"; "{"; "}"; "|"; ":"; "/"; "<"; ">"; "?"]%char.

(* opening bracket -> (closing text, terminator added) *)
Definition opening (s : string) : option (string * option ascii) :=
  if String.eqb s "(" then Some (")", None)
  else if String.eqb s "<" then Some (">", None)
  else match s with
       | String c0 (String c EmptyString) =>
           if Ascii.eqb c0 "^" && existsb (Ascii.eqb c) caret_bracket_chars
           then Some (String c EmptyString, Some c) else None
       | _ => None
       end.

(* ---- expression_literal ------------------------------------------------------------------------*)
(* (~terminator + colon)(ctx, maybe=True) after a name: a colon that is not a terminator is taken *)
Definition take_colon (terms : list ascii) (ts : list token) : bool * list token :=
  match ts with
  | TP p :: rest => if String.eqb p ":" && negb (terminated terms ":") then (true, rest) else (false, ts)
  | _ => (false, ts)
  end.

Definition parse_literal (terms : list ascii) (ts : list token) : pres (ptree * list token) :=
  match ts with
  | TSym s :: rest =>
      let '(lab, rest') := take_colon terms rest in POk (PSym s lab, rest')
  | TRad50 s :: rest =>
      match rad50_literal s with
      | LexRad v errs => POk (PRad50 v errs, rest)
      | LexRadCrash site => PCrash site
      | LexRadOutside => PNo
      end
  | TP p :: TNum s :: rest =>
      (* number() takes the minus sign; a following colon makes it a label, which cannot be negated *)
      if negb (String.eqb p "-") then PNo else
      if fst (take_colon terms rest) then PNo else
      match lex_number true s with
      | LexNum v i8 rep => POk (PNum v i8 rep, rest)
      | LexCrit id => PCrit id
      | LexLabel | LexNoMatch => PNo
      end
  | TNum s :: rest =>
      let '(lab, rest') := take_colon terms rest in
      if lab then (if is_local_symbol_literal s then POk (PSym s true, rest') else PNo) else
      match lex_number false s with
      | LexNum v i8 rep => POk (PNum v i8 rep, rest)
      | LexCrit id => PCrit id
      | LexLabel =>
          (* local_symbol_expression: an all-digit name needs its colon *)
          if str_forallb is_decimal_digit s then PNo else POk (PSym s false, rest)
      | LexNoMatch => PNo
      end
  | TChar1 c :: rest => POk (PChar [c], rest)
  | TChar2 c1 c2 :: rest => POk (PChar [c1; c2], rest)
  | TDot :: rest => POk (PDot, rest)
  | _ => PNo
  end.

(* ---- expression_literal_rec --------------------------------------------------------------------*)
Section Atom.
(* expression() one nesting level down *)
Variable rec : list ascii -> list token -> pres (ptree * list token).

(* after an opening bracket: expression (critical if none), then the closing text (critical if absent) *)
Definition bracketed (terms : list ascii) (closing : string) (newterm : option ascii) (ts : list token)
  : pres (ptree * list token) :=
  let terms' := match newterm with Some c => c :: terms | None => terms end in
  match rec terms' ts with
  | POk (e, TP c :: rest) => if String.eqb c closing then POk (e, rest) else PCrit "invalid-expression"
  | POk (e, _) => PCrit "invalid-expression"
  | PNo => PCrit "invalid-expression"
  | PCrit id => PCrit id
  | PCrash s => PCrash s
  | PFuel => PFuel
  end.

(* value(...)(...) : every further '(' is a call *)
Fixpoint call_loop (n : nat) (terms : list ascii) (value : ptree) (ts : list token)
  : pres (ptree * list token) :=
  match n with
  | O => PFuel
  | S n' =>
      match ts with
      | TP p :: rest =>
          if negb (String.eqb p "(") then POk (value, ts) else
          match bracketed terms ")" None rest with
          | POk (e, rest') => call_loop n' terms (PCall value e) rest'
          | PNo => PNo
          | PCrit id => PCrit id
          | PCrash s => PCrash s
          | PFuel => PFuel
          end
      | _ => POk (value, ts)
      end
  end.

Definition parse_atom (terms : list ascii) (ts : list token) : pres (ptree * list token) :=
  let n := S (length ts) in
  let literal :=
    match parse_literal terms ts with
    | POk (v, rest) => call_loop n terms v rest
    | other => other
    end in
  match ts with
  | TP s :: rest =>
      match opening s with
      | Some (closing, newterm) =>
          match bracketed terms closing newterm rest with
          | POk (e, rest') => call_loop n terms (PParen s e) rest'
          | other => other
          end
      | None => literal
      end
  | _ => literal
  end.
End Atom.

(* ---- expression() ------------------------------------------------------------------------------*)
(* pop_op_stack *)
Definition pop_op (top : op_row) (stack : list ptree) : pres (list ptree) :=
  match or_kind top, stack with
  | KInfix, rhs :: lhs :: st => POk (PInfix (or_char top) lhs rhs :: st)
  | KInfix, _ => PCrash "IndexError:pop from empty list"
  | _, x :: st => POk (PPrefix (or_char top) x :: st)
  | _, [] => PCrash "IndexError:pop from empty list"
  end.

(* (self_precedence, is_left_associative) > (top.precedence, False) on Python tuples *)
Definition should_pop (self top : op_row) : bool :=
  Nat.ltb (or_prec top) (or_prec self) || (Nat.eqb (or_prec top) (or_prec self) && or_left self).

(* while op_stack and ... : pop_op_stack(ctx_prev) *)
Fixpoint pop_while (self : op_row) (ops : list op_row) (stack : list ptree)
  : pres (list op_row * list ptree) :=
  match ops with
  | [] => POk ([], stack)
  | top :: ops' =>
      if should_pop self top then
        match pop_op top stack with
        | POk stack' => pop_while self ops' stack'
        | PNo => PNo | PCrit id => PCrit id | PCrash s => PCrash s | PFuel => PFuel
        end
      else POk (ops, stack)
  end.

(* while op_stack: pop_op_stack(ctx); return stack[-1] *)
Fixpoint pop_all (ops : list op_row) (stack : list ptree) : pres ptree :=
  match ops with
  | [] => match stack with e :: _ => POk e | [] => PCrash "IndexError:list index out of range" end
  | top :: ops' =>
      match pop_op top stack with
      | POk stack' => pop_all ops' stack'
      | PNo => PNo | PCrit id => PCrit id | PCrash s => PCrash s | PFuel => PFuel
      end
  end.

(* what may follow a postfix operator: newline | comma | ')' | '}' | end of input *)
Definition postfix_follow (ts : list token) : bool :=
  match ts with
  | [] => true
  | TP s :: _ => String.eqb s "," || String.eqb s ")" || String.eqb s "}"
  | _ => false
  end.

Section Expression.
Variable atom : list ascii -> list token -> pres (ptree * list token).   (* expression_literal_rec *)

(* the first loop: an operand, else a prefix operator and again.  [ops]: prefix operators so far, last first *)
Fixpoint prefix_phase (n : nat) (terms : list ascii) (ops : list op_row) (ts : list token)
  : pres (list op_row * ptree * list token) :=
  match n with
  | O => PFuel
  | S n' =>
      match atom terms ts with
      | POk (e, rest) => POk (ops, e, rest)
      | PNo =>
          (* report = critical 'invalid-expression' once a prefix operator has been taken *)
          let fail : pres (list op_row * ptree * list token) :=
            match ops with [] => PNo | _ => PCrit "invalid-expression" end in
          match ts with
          | TP s :: rest =>
              if terminated terms s then fail else
              match lookup_op KPrefix s with
              | Some row => prefix_phase n' terms (row :: ops) rest
              | None =>
                  (* Parser.regex(r"\^\S"): a caret followed by anything is 'an invalid prefix operator' *)
                  match s with
                  | String c0 (String _ _) => if Ascii.eqb c0 "^" then PCrit "invalid-expression" else fail
                  | _ => fail
                  end
              end
          | _ => fail
          end
      | PCrit id => PCrit id
      | PCrash s => PCrash s
      | PFuel => PFuel
      end
  end.

(* the second loop.  [ops]/[stack]: op_stack and stack, last element first *)
Fixpoint infix_loop (n : nat) (terms : list ascii) (ops : list op_row) (stack : list ptree) (ts : list token)
  : pres (ptree * list token) :=
  let finish := match pop_all ops stack with
                | POk e => POk (e, ts)
                | PNo => PNo | PCrit id => PCrit id | PCrash s => PCrash s | PFuel => PFuel
                end in
  match n with
  | O => PFuel
  | S n' =>
      match ts with
      | TP s :: rest =>
          if terminated terms s then finish else
          match lookup_op KPostfix s, postfix_follow rest with
          | Some row, true =>
              match pop_while row ops stack with
              | POk (ops', x :: st) =>
                  match pop_all ops' (PPostfix (or_char row) x :: st) with
                  | POk e => POk (e, rest)
                  | PNo => PNo | PCrit id => PCrit id | PCrash c => PCrash c | PFuel => PFuel
                  end
              | POk (_, []) => PCrash "IndexError:list index out of range"
              | PNo => PNo | PCrit id => PCrit id | PCrash c => PCrash c | PFuel => PFuel
              end
          | _, _ =>
              match lookup_op KInfix s with
              | Some row =>
                  match atom terms rest with
                  | POk (e, rest') =>
                      match pop_while row ops stack with
                      | POk (ops', stack') => infix_loop n' terms (row :: ops') (e :: stack') rest'
                      | PNo => PNo | PCrit id => PCrit id | PCrash c => PCrash c | PFuel => PFuel
                      end
                  | PNo => PCrit "invalid-expression"
                  | PCrit id => PCrit id
                  | PCrash c => PCrash c
                  | PFuel => PFuel
                  end
              | None => finish
              end
          end
      | _ => finish
      end
  end.
End Expression.

(* expression(ctx, terminator): [fuel] bounds the bracket nesting and the number of loop rounds *)
Fixpoint parse_expr (fuel : nat) (terms : list ascii) (ts : list token) : pres (ptree * list token) :=
  match fuel with
  | O => PFuel
  | S f =>
      let atom := parse_atom (parse_expr f) in
      match prefix_phase atom f terms [] ts with
      | POk (ops, e, rest) => infix_loop atom f terms ops [e] rest
      | PNo => PNo
      | PCrit id => PCrit id
      | PCrash s => PCrash s
      | PFuel => PFuel
      end
  end.

(* a whole operand: the expression must use up the tokens *)
Definition parse_operand (ts : list token) : pres ptree :=
  match parse_expr (S (S (length ts))) [] ts with
  | POk (e, []) => POk e
  | POk (_, _ :: _) => PCrit "trailing-text"
  | PNo => PNo
  | PCrit id => PCrit id
  | PCrash s => PCrash s
  | PFuel => PFuel
  end.

(* ---- evaluation (resolve) on integer operands ---------------------------------------------------*)
Definition register_names : list string :=
  ["r0"; "r1"; "r2"; "r3"; "r4"; "r5"; "r6"; "r7"; "sp"; "pc"].
Definition lower_string (s : string) : string := str_map lower s.
Definition is_register (s : string) : bool := existsb (String.eqb (lower_string s)) register_names.

Section Eval.
Variable encode : list N -> option (list N).    (* str.encode(output_charset) *)
Variable sym : string -> option Z.              (* the value a symbol finally has, if defined *)
Variable dot : Z.                               (* state["emit_address"] *)

(* Ok (v, ids): value and the identifiers given to reports.error on the way (evaluation goes on
   after such a report);  Err ids: reported and then gave up (RecoverableError, or an exception that
   compiler.py turns into a report: MemoryError -> 'too-complex');  Crash: any other exception *)
Definition raised_id (s : string) : string :=
  if String.eqb s "raised MemoryError" then "too-complex" else s.

(* the outcome of an operator body, after the operands reported [errs] *)
Definition apply_body (errs : list string) (r : res opres) : res (Z * list string) :=
  match r with
  | Ok (v, e) => Ok (v, errs ++ e)%list
  | Err ids => Err (errs ++ map raised_id ids)%list
  | Crash s => if String.eqb s "MemoryError" then Err (errs ++ ["too-complex"])%list else Crash s
  | OutOfFuel => OutOfFuel
  end.

(* lhs.resolve, then rhs.resolve, then the operator: an exception in one stops the rest, reports stay *)
Definition eval2 (ml mr : res (Z * list string)) (f : option (Z -> Z -> res opres)) : res (Z * list string) :=
  match ml with
  | Ok a =>
      match mr with
      | Ok b => match f with
                | Some g => apply_body (snd a ++ snd b)%list (g (fst a) (fst b))
                | None => Crash "KeyError:operator"
                end
      | Err ids => Err (snd a ++ ids)%list
      | Crash s => Crash s
      | OutOfFuel => OutOfFuel
      end
  | other => other
  end.
Definition eval1 (mx : res (Z * list string)) (f : option (Z -> res opres)) : res (Z * list string) :=
  match mx with
  | Ok a => match f with
            | Some g => apply_body (snd a) (g (fst a))
            | None => Crash "KeyError:operator"
            end
  | other => other
  end.

Fixpoint meval (t : ptree) : res (Z * list string) :=
  match t with
  | PNum v i8 rep =>
      Ok (v, (if rep then ["invalid-number"] else []) ++ (if i8 then ["invalid-number"] else []))%list
  | PSym s lab =>
      if is_register s && negb lab then Err ["unexpected-register"] else
      match sym s with
      | Some v => Ok (v, [])
      | None => Ok (0%Z, ["undefined-symbol"])
      end
  | PDot => Ok (dot, [])
  | PChar cs => Ok (char_value encode cs)
  | PRad50 v errs => Ok (Z.of_N v, errs)
  | PParen _ e => meval e
  | PInfix c l r => eval2 (meval l) (meval r) (infix_body c)
  | PCall f x => eval2 (meval f) (meval x) (infix_body "$")
  | PPrefix c x => eval1 (meval x) (prefix_body c)
  | PPostfix c x => eval1 (meval x) (postfix_body c)
  end.
End Eval.
