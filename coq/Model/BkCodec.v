(* Hand model of pdpy11/bk_encoding.py over the regenerated DECODING_TABLE.  No proofs here. *)
From Coq Require Import List NArith Bool.
From Verif Require Import Gen.GenBkTable.
Import ListNotations.
Open Scope N_scope.

Section Codec.
Variable table : list (list N).

(* DECODING_TABLE[b][0]; None = IndexError (b >= len table, or an empty entry) *)
Definition decode_byte (b : N) : option N :=
  match nth_error table (N.to_nat b) with
  | Some (c :: _) => Some c
  | _ => None
  end.

Definition mem (c : N) (l : list N) : bool := existsb (N.eqb c) l.

(* ENCODING_TABLE = {char: i for i, chars in enumerate(T) for char in chars}: the last entry
   containing c wins.  [enc_from i rows] scans rows numbered from i. *)
Fixpoint enc_from (i : N) (rows : list (list N)) (c : N) : option N :=
  match rows with
  | [] => None
  | r :: rest =>
      match enc_from (i + 1) rest c with
      | Some j => Some j
      | None => if mem c r then Some i else None
      end
  end.

Definition encode_char (c : N) : option N := enc_from 0 table c.

Definition encodable (c : N) : bool := match encode_char c with Some _ => true | None => false end.

(* index of the first unencodable character, counting from i *)
Fixpoint first_bad (i : nat) (s : list N) : option nat :=
  match s with
  | [] => None
  | c :: rest => if encodable c then first_bad (S i) rest else Some i
  end.

(* one past the index of the last unencodable character *)
Fixpoint last_bad_end (i : nat) (s : list N) : option nat :=
  match s with
  | [] => None
  | c :: rest =>
      match last_bad_end (S i) rest with
      | Some e => Some e
      | None => if encodable c then None else Some (S i)
      end
  end.

Fixpoint encode_all (s : list N) : option (list N) :=
  match s with
  | [] => Some []
  | c :: rest =>
      match encode_char c, encode_all rest with
      | Some b, Some bs => Some (b :: bs)
      | _, _ => None
      end
  end.

Inductive enc_result := EncOk (bs : list N) | EncError (start stop : nat).

(* str.encode("bk"): bytes, or UnicodeEncodeError("bk", s, start, end, ...) *)
Definition encode (s : list N) : enc_result :=
  match encode_all s with
  | Some bs => EncOk bs
  | None =>
      match first_bad 0 s, last_bad_end 0 s with
      | Some a, Some e => EncError a e
      | _, _ => EncError 0 0 (* unreachable: proved in Proofs/BkCodecP.v *)
      end
  end.

Fixpoint decode (bs : list N) : option (list N) :=
  match bs with
  | [] => Some []
  | b :: rest =>
      match decode_byte b, decode rest with
      | Some c, Some cs => Some (c :: cs)
      | _, _ => None
      end
  end.

End Codec.

Definition bk_decode_byte := decode_byte decoding_table.
Definition bk_encode_char := encode_char decoding_table.
Definition bk_encode := encode decoding_table.
Definition bk_decode := decode decoding_table.
Definition bk_all_chars : list N := concat decoding_table.
