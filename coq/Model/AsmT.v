(* Model/AsmT.v -- syntactic classes and program transformations used by the whole-program laws of the
   reference assembler (Props/R.v: R_move_def, R_repeat_unroll, R_insert_is_bytes, R_end_cuts) and by their
   correspondence streams (Run/RRun.v, tools/r_corr.py).  No proofs here. *)
From Coq Require Import ZArith List String Ascii Bool NArith.
From Verif Require Import Base.Res Spec.Arith Model.Asm.
Import ListNotations.
Notation length := Datatypes.length.
Open Scope string_scope.
Open Scope list_scope.
Open Scope Z_scope.

Definition smem (s : string) (l : list string) : bool := existsb (String.eqb s) l.


(* ---- which names an expression / a statement mentions --------------------------------------- *)
Fixpoint efree (names : list string) (e : expr) : bool :=
  match e with
  | Sym s => negb (smem s names)
  | Un _ x | Group _ x => efree names x
  | Bin _ l r => efree names l && efree names r
  | _ => true
  end.

Definition ofree (names : list string) (o : aoperand) : bool :=
  match o with
  | AReg r | ARegDef r | AAutoInc r | AAutoIncDef r | AAutoDec r | AAutoDecDef r
  | AImm r | AAbs r | ARel r | ARelDef r => efree names r
  | AIndex x r | AIndexDef x r => efree names x && efree names r
  | AAcc _ => true
  end.

Definition cfree (names : list string) (c : achunk) : bool :=
  match c with CStr _ => true | CCode e => efree names e end.

(* a statement that defines nothing, fixes nothing and mentions none of [names]: the only statements
   allowed inside a .repeat body by the code; nested repeats allowed *)
Fixpoint plainf (names : list string) (s : stmt) : bool :=
  match s with
  | Insn _ ops => forallb (ofree names) ops
  | Byte es | Word es | Dword es | WordList es => forallb (efree names) es
  | Blkb e | Blkw e | Align e => efree names e
  | Ascii _ cs | Rad50 cs => forallb (cfree names) cs
  | Even | Odd | Insert _ | NoOp => true
  | Repeat ce body =>
      efree names ce && (fix go (l : list stmt) : bool := match l with [] => true | x :: r => plainf names x && go r end) body
  | _ => false
  end.


(* names of the local labels written anywhere in a program *)
Fixpoint lnames_stmt (s : stmt) : list string :=
  match s with
  | LocalLabel n => [n]
  | Repeat _ body | Include _ _ body =>
      (fix go (l : list stmt) : list string := match l with [] => [] | x :: r => lnames_stmt x ++ go r end) body
  | _ => []
  end.
Definition lnames (l : list stmt) : list string := flat_map lnames_stmt l.


Definition is_end (s : stmt) : bool := match s with End => true | _ => false end.

Fixpoint nodot (e : expr) : bool :=
  match e with
  | Dot => false
  | Un _ x | Group _ x => nodot x
  | Bin _ l r => nodot l && nodot r
  | _ => true
  end.


(* no other statement defines the name n *)
Fixpoint nodef (n : string) (s : stmt) : bool :=
  match s with
  | Label m | Assign m _ => negb (String.eqb m n)
  | Repeat _ body | Include _ _ body =>
      (fix go (l : list stmt) : bool := match l with [] => true | x :: r => nodef n x && go r end) body
  | _ => true
  end.

(* literals *)
Definition numlit (n : nat) : expr := Lit (LNum false SBareOct false false (N.of_nat n)).
Definition bytelit (b : Z) : expr := Lit (LNum false SBareOct false false (Z.to_N b)).


(* ---- the transformations, on the top-level statement list --------------------------------------------- *)
Fixpoint remove_nth {A} (i : nat) (l : list A) : option (A * list A) :=
  match i, l with
  | O, x :: r => Some (x, r)
  | S k, x :: r => match remove_nth k r with Some (y, r') => Some (y, x :: r') | None => None end
  | _, [] => None
  end.

Fixpoint insert_at {A} (j : nat) (x : A) (l : list A) : list A :=
  match j, l with
  | O, _ => x :: l
  | S k, y :: r => y :: insert_at k x r
  | S _, [] => [x]
  end.

Fixpoint replace_nth {A} (i : nat) (f : A -> option (list A)) (l : list A) : option (list A) :=
  match i, l with
  | O, x :: r => match f x with Some ys => Some (ys ++ r) | None => None end
  | S k, x :: r => match replace_nth k f r with Some r' => Some (x :: r') | None => None end
  | _, [] => None
  end.

Inductive law : Type :=
| LMove (i j : nat)      (* the definition at position i is taken out and put back at position j of what remains *)
| LUnroll (i : nat)      (* the .repeat with a literal count at position i is written out *)
| LInsert (i : nat)      (* the insert_file at position i becomes .byte of its bytes *)
| LCut (k : nat).        (* an End is put before position k (everything from there on is discarded) *)

Definition apply_law (l : law) (p : program) : option program :=
  match l with
  | LMove i j =>
      match remove_nth i p with
      | Some (Assign n e, r) => Some (insert_at j (Assign n e) r)
      | _ => None
      end
  | LUnroll i =>
      replace_nth i (fun s => match s with
                              | Repeat (Lit (LNum false _ _ _ n)) body => Some (List.concat (repeat body (N.to_nat n)))
                              | _ => None end) p
  | LInsert i =>
      replace_nth i (fun s => match s with
                              | Insert (b :: bs) => Some [Byte (map bytelit (b :: bs))]
                              | _ => None end) p
  | LCut k => Some (firstn k p ++ End :: skipn k p)
  end.

(* ---- several files given to the linker (compile_and_link_files): the first file up to its End, then every further
   file as a block with its own names that shares the link base ------------------------------------------------- *)
Definition link (f1 : program) (rest : list (nat * program)) : program :=
  cut_end f1 ++ map (fun fb => Include false (fst fb) (snd fb)) rest.

(* the two programs a law relates: for LCut the program with the End put in and the program cut there *)
Definition law_pair (l : law) (p : program) : option (program * program) :=
  match apply_law l p with
  | Some tp => Some (match l with LCut _ => tp | _ => p end, match l with LCut k => firstn k p ++ [End] | _ => tp end)
  | None => None
  end.

(* the hypotheses of the laws, as the theorems state them *)
Definition law_hyps (l : law) (p : program) : bool :=
  match l with
  | LMove i j =>
      match remove_nth i p with
      | Some (Assign n e, r) =>
          forallb (fun y => negb (is_end y)) (firstn (Nat.max i j) r)
          && forallb (nodef n) r && efree (lnames r) e && nodot e
          && negb (existsb (Nat.eqb 0) (snd (collect_exports 0 r)))
      | _ => false
      end
  | LUnroll i =>
      match remove_nth i p with
      | Some (Repeat (Lit (LNum _ _ _ _ n)) body, r) => (Z.of_N n <=? 65536) && forallb (plainf (lnames r)) body
      | _ => false
      end
  | LInsert i =>
      match remove_nth i p with
      | Some (Insert bs, _) => forallb (fun b => (0 <=? b) && (b <? 256)) bs
      | _ => false
      end
  | LCut _ => true
  end.

(* ---- a syntactic class on which the model never answers Unsupported (except its size guard) ------------- *)
Fixpoint closed (e : expr) : bool :=
  match e with
  | Lit _ => true
  | Sym _ | Dot => false
  | Un _ x | Group _ x => closed x
  | Bin _ l r => closed l && closed r
  end.

Definition dkeyb (f : nat) (s : string) (d : defn) : bool := Nat.eqb f (d_file d) && String.eqb s (d_name d).

(* s is defined in file f, and only by expressions made of literals *)
Definition closed_name (D : list defn) (f : nat) (s : string) : bool :=
  existsb (dkeyb f s) D && forallb (fun d => negb (dkeyb f s d) || closed (d_expr d)) D.

(* an expression the LAYOUT has to evaluate (counts, fills, skips, <n> in strings, the link base): literals, `.`,
   and names of such constants -- nothing that depends on labels *)
Fixpoint lt_ok (D : list defn) (f : nat) (e : expr) : bool :=
  match e with
  | Lit _ | Dot => true
  | Sym s => closed_name D f s
  | Un _ x | Group _ x => lt_ok D f x
  | Bin _ l r => lt_ok D f l && lt_ok D f r
  end.

Definition lt_ok_chunk (D : list defn) (f : nat) (c : achunk) : bool :=
  match c with CStr _ => true | CCode e => lt_ok D f e end.

Fixpoint sup_stmt (D : list defn) (f : nat) (inrep ininc : bool) (s : stmt) : bool :=
  match s with
  | Blkb e | Blkw e | Align e => lt_ok D f e
  | Ascii _ cs | Rad50 cs => forallb (lt_ok_chunk D f) cs
  | Skip e => negb inrep && negb ininc && lt_ok D f e
  | Link _ => negb inrep && negb ininc
  | Extern _ | ExternAll => negb inrep
  | End => false
  | Repeat ce body =>
      lt_ok D f ce && (fix go (l : list stmt) : bool := match l with [] => true | x :: r => sup_stmt D f true ininc x && go r end) body
  | Include own fid body =>
      negb inrep && (fix go (l : list stmt) : bool :=
                       match l with [] => true | End :: _ => true | x :: r => sup_stmt D fid false (own || ininc) x && go r end) body
  | _ => true
  end.

Definition supported (p : program) : bool :=
  let q := cut_end p in
  let D := collect_defs 0 0 q in
  nodup_nat (0%nat :: file_ids q)
  && match first_base 0 q with Some (f, e) => lt_ok D f e && nodot e | None => true end
  && forallb (sup_stmt D 0 false false) q.

(* ---- "the same outcome", as a boolean (Proofs/AsmMove.same_outcome) -------------------------------------- *)
Fixpoint zlist_eqb (a b : list Z) : bool :=
  match a, b with [], [] => true | x :: xs, y :: ys => (x =? y) && zlist_eqb xs ys | _, _ => false end.

Definition look_sub (T T' : symtab) : bool :=
  forallb (fun kv => match klookup (fst kv) T, klookup (fst kv) T' with
                     | Some a, Some b => a =? b | _, _ => false end) T.

(* same_outcome of Proofs/AsmMove.v, as a boolean *)
Definition res_same (r r' : (xres (Z * list Z * symtab))) : bool :=
  match r, r' with
  | XOk (b, i, T), XOk (b', i', T') => (b =? b') && zlist_eqb i i' && look_sub T T' && look_sub T' T
  | XOk _, _ | _, XOk _ => false
  | _, _ => true
  end.


(* ---- relocation: a class of programs whose only base-dependent values are labels, used bare ------------------ *)
Definition is_sym (e : expr) : bool := match e with Sym _ => true | _ => false end.
(* an absolute value: a number, or a label (moves with the base) *)
Definition re_abs (e : expr) : bool := closed e || is_sym e.

Definition reloc_opnd (o : aoperand) : bool :=
  match o with
  | AReg r | ARegDef r | AAutoInc r | AAutoIncDef r | AAutoDec r | AAutoDecDef r => closed r
  | AIndex x r | AIndexDef x r => closed x && closed r
  | AImm e | AAbs e => re_abs e
  | ARel e | ARelDef e => is_sym e          (* relative operands and branch targets: labels only *)
  | AAcc _ => true
  end.

(* mnemonics whose operand is an inline number, not an address *)
Definition inline_num (m : string) : bool :=
  existsb (String.eqb m) ["emt"; "trap"; "sys"; "mark"; "spl"; "xfc"].

Definition reloc_stmt (s : stmt) : bool :=
  match s with
  | Label _ | LocalLabel _ | Even | Odd | Insert _ | NoOp => true
  | Insn m ops =>
      if inline_num m then forallb (fun o => match o with ARel e => closed e | _ => false end) ops
      else forallb reloc_opnd ops
  | Byte es | Dword es => forallb closed es
  | Word es | WordList es => forallb re_abs es
  | Blkb e | Blkw e => closed e
  | Ascii _ cs | Rad50 cs => forallb (fun c => match c with CStr _ => true | CCode e => closed e end) cs
  | _ => false
  end.

Definition reloc_ok (rest : program) : bool := forallb reloc_stmt rest.

(* the program at base b *)
Definition at_base (b : Z) (rest : program) : program :=
  Link (Lit (LNum false SBareOct false false (Z.to_N b))) :: rest.
