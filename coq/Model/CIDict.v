(* Hand model of pdpy11/containers.py (CaseInsensitiveDict) over strings as lists of code points.
   No proofs here.

   self.container is a Python dict  key.lower() -> (key, value).  A Python dict keeps insertion
   order, an assignment to an existing key replaces the value *in place*: modelled as an
   association list in insertion order.

   str.lower: on ASCII it is the model function [ascii_lower]; on non-ASCII code points it is a
   Section variable [ext] (Python's Unicode tables are not modelled; str.lower may return several
   code points for one, e.g. U+0130 -> 'i' U+0307, hence [N -> list N]). *)
From Coq Require Import List NArith Bool.
Import ListNotations.
Open Scope N_scope.

Definition str := list N.

Fixpoint str_eqb (a b : str) : bool :=
  match a, b with
  | [], [] => true
  | x :: xs, y :: ys => (x =? y) && str_eqb xs ys
  | _, _ => false
  end.

(* 'A'..'Z' -> 'a'..'z' *)
Definition ascii_lower (c : N) : N := if (65 <=? c) && (c <=? 90) then c + 32 else c.
Definition ascii_upper (c : N) : N := if (97 <=? c) && (c <=? 122) then c - 32 else c.
Definition is_ascii (c : N) : bool := c <? 128.

Section Lower.
Variable ext : N -> list N.          (* str.lower on one non-ASCII code point *)

Definition lower_char (c : N) : list N := if is_ascii c then [ascii_lower c] else ext c.
Definition lower (s : str) : str := flat_map lower_char s.
End Lower.

Section Dict.
Variable V : Type.
Variable low : str -> str.            (* key.lower() *)

Definition cidict := list (str * (str * V)).      (* lowered key, (key as given, value) *)

Fixpoint raw_get (lk : str) (d : cidict) : option (str * V) :=
  match d with
  | [] => None
  | (k, e) :: rest => if str_eqb k lk then Some e else raw_get lk rest
  end.

(* container[lk] = e : replace in place, or append *)
Fixpoint raw_set (lk : str) (e : str * V) (d : cidict) : cidict :=
  match d with
  | [] => [(lk, e)]
  | (k, e') :: rest => if str_eqb k lk then (k, e) :: rest else (k, e') :: raw_set lk e rest
  end.

(* __contains__ (for a str key) *)
Definition contains (k : str) (d : cidict) : bool :=
  match raw_get (low k) d with Some _ => true | None => false end.

(* __getitem__: None = KeyError *)
Definition getitem (k : str) (d : cidict) : option V :=
  match raw_get (low k) d with Some (_, v) => Some v | None => None end.

(* get(key, default) *)
Definition get (k : str) (default : option V) (d : cidict) : option V :=
  match raw_get (low k) d with Some (_, v) => Some v | None => default end.

(* __setitem__ *)
Definition set (k : str) (v : V) (d : cidict) : cidict := raw_set (low k) (k, v) d.

(* items(): (key as given, value) in insertion order;  __iter__: the keys as given *)
Definition items (d : cidict) : list (str * V) := map snd d.
Definition keys (d : cidict) : list str := map (fun e => fst (snd e)) d.

(* CaseInsensitiveDict(container): dict comprehension over container.items(), the last wins *)
Definition of_items (l : list (str * V)) : cidict :=
  fold_left (fun d kv => set (fst kv) (snd kv) d) l [].

Definition empty : cidict := [].
End Dict.

Arguments raw_get {V}.
Arguments raw_set {V}.
Arguments contains {V}.
Arguments getitem {V}.
Arguments get {V}.
Arguments set {V}.
Arguments items {V}.
Arguments keys {V}.
Arguments of_items {V}.
