(* PA -- from the parse tree of Model/StmtParse.v to the abstract syntax of the reference assembler Model/Asm.v:
   a Gallina mirror of tools/ast2coq.py (Converter.expr / hoist / regmode / fixup / operand / chunks / meta / stmt /
   block / include, convert), so that  text -> tree -> program -> bytes  is one Gallina pipeline
       Asm.assemble (to_asm fs name text)
   evaluated in coqc and compared with pdpy11's bytes (Run/PARun.v, tools/pa_corr.py).  No proofs here.

   Like ast2coq.convert the conversion is all-or-nothing: a statement outside the subset of Model/Asm.v makes the
   whole program CUnsup (the reason of the first one found is kept; ast2coq counts all of them).
   The file system is an explicit table: (including file, path as written) -> (resolved path, text, bytes), built by
   the harness with pdpy11's own devices.resolve_relative_path.
   Rewritten operand trees (hoist, fixup_label) reuse the parser's node type with offsets 0; the `symlabel` node of
   ast2coq is Symbol _ _ name true. *)
From Coq Require Import String Ascii List ZArith NArith Bool.
From Verif Require Import Base.Res Spec.Arith Gen.GenOpcodes Gen.GenInsnConst Gen.GenParserTables Model.Insns Model.Asm.
From Verif Require Model.StmtParse.
Import ListNotations.
Module P := Verif.Model.StmtParse.
Open Scope string_scope.
Open Scope list_scope.

Inductive conv (A : Type) : Type := COk (a : A) | CUnsup (why : string).
Arguments COk {A} a.
Arguments CUnsup {A} why.
Definition cbind {A B} (r : conv A) (f : A -> conv B) : conv B :=
  match r with COk a => f a | CUnsup w => CUnsup w end.
Notation "'cdo' x <- r ; k" := (cbind r (fun x => k)) (at level 200, x name, r at level 100, k at level 200).
Fixpoint cmapM {A B} (f : A -> conv B) (l : list A) : conv (list B) :=
  match l with
  | [] => COk []
  | x :: xs => cdo y <- f x; cdo ys <- cmapM f xs; COk (y :: ys)
  end.

(* ---- strings -------------------------------------------------------------------------------------------- *)
Fixpoint string_of_codes (l : list N) : string :=
  match l with [] => EmptyString | c :: r => String (ascii_of_N c) (string_of_codes r) end.
(* coq_str(name.lower()): printable ASCII only *)
Definition name_str (l : list N) : conv string :=
  if forallb (fun c => (32 <=? c)%N && (c <? 127)%N) l then COk (string_of_codes (P.str_lower l))
  else CUnsup "non-ascii-name".
Definition codes_of_string (s : string) : list N := map N_of_ascii (list_ascii_of_string s).
Definition leq (a b : list N) : bool := P.list_eqb a b.
Definition lit (s : string) : list N := codes_of_string s.

(* the short spellings of Run/RRun.v *)
Definition n_ (z : Z) : expr := Lit (LNum (z <? 0)%Z SBareOct false false (Z.abs_N z)).
Definition bad89 : expr := Lit (LBad89 false [8%N]).

(* insns.REGISTER_NAMES[name.lower()] *)
Fixpoint sassoc {V} (s : string) (t : list (string * V)) : option V :=
  match t with [] => None | (k, v) :: r => if String.eqb s k then Some v else sassoc s r end.
Definition reg_number (name : list N) : option Z := sassoc (string_of_codes (P.str_lower name)) register_names.

(* ---- views of a node ------------------------------------------------------------------------------------ *)
Definition as_call (n : P.node) : option (P.node * P.node) :=
  match n with P.Infix _ _ op l r => if leq op [36%N] then Some (l, r) else None | _ => None end.
Definition mk_call (l r : P.node) : P.node := P.Infix 0 0 [36%N] l r.
Definition as_prefix (ch : list N) (n : P.node) : option P.node :=
  match n with P.Prefix _ _ op x => if leq op ch then Some x else None | _ => None end.
Definition as_postfix (ch : list N) (n : P.node) : option P.node :=
  match n with P.Postfix _ _ op x => if leq op ch then Some x else None | _ => None end.
(* is_paren: ParenthesizedExpression with "(" *)
Definition as_paren (n : P.node) : option P.node :=
  match n with P.Paren _ _ x op _ => if leq op [40%N] then Some x else None | _ => None end.
Definition deferred_of := as_prefix [64%N].     (* @ *)
Definition immediate_of := as_prefix [35%N].    (* # *)
Definition register_of := as_prefix [37%N].     (* % *)
Definition neg_of := as_prefix [45%N].          (* - *)
Definition postadd_of := as_postfix [43%N].     (* + *)

Definition binop_of (op : list N) : option binop :=
  if leq op (lit "*") then Some BMul else if leq op (lit "/") then Some BDiv else if leq op (lit "%") then Some BMod
  else if leq op (lit "+") then Some BAdd else if leq op (lit "-") then Some BSub else if leq op (lit "<<") then Some BShl
  else if leq op (lit ">>") then Some BShr else if leq op (lit "_") then Some BLsh else if leq op (lit "&") then Some BAnd
  else if leq op (lit "^") then Some BXor else if leq op (lit "|") then Some BOr else if leq op (lit "!") then Some BBang
  else None.
Definition unop_of (op : list N) : option unop :=
  if leq op (lit "+") then Some UPlus else if leq op (lit "-") then Some UNeg else if leq op (lit "~") then Some UInv
  else if leq op (lit "^c") then Some UCompl else None.

(* ---- Converter.expr --------------------------------------------------------------------------------------- *)
Fixpoint cexpr (n : P.node) : conv expr :=
  match n with
  | P.Infix _ _ op l r =>
      if leq op [36%N] then CUnsup "call-as-value" else
      match binop_of op with
      | Some o => cdo a <- cexpr l; cdo b <- cexpr r; COk (Bin o a b)
      | None => CUnsup "infix"
      end
  | P.Prefix _ _ op x =>
      match unop_of op with
      | Some u => cdo a <- cexpr x; COk (Un u a)
      | None => CUnsup "operand-operator-as-value"
      end
  | P.Postfix _ _ _ _ => CUnsup "postfix-as-value"
  | P.Number _ _ _ v _ bad8 => if bad8 then COk bad89 else COk (n_ v)
  | P.Symbol _ _ name lbl =>
      if match reg_number name with Some _ => negb lbl | None => false end then CUnsup "register-as-value"
      else cdo s <- name_str name; COk (Sym s)
  | P.IPtr _ _ => COk Dot
  | P.Paren _ _ x op _ => cdo a <- cexpr x; COk (Group (if leq op [60%N] then Angle else Paren) a)
  | P.CharLit _ _ _ s =>
      match s with
      | [a] => COk (Lit (LChar1 a))
      | [a; b] => COk (Lit (LChar2 a b))
      | _ => CUnsup "char-literal-length"
      end
  | _ => CUnsup "expr"
  end.

(* try_reg: Some (expression of the register number) *)
Definition try_reg (n : P.node) : conv (option expr) :=
  match n with
  | P.Symbol _ _ name false => match reg_number name with Some k => COk (Some (n_ k)) | None => COk None end
  | _ => match register_of n with
         | Some x => cdo e <- cexpr x; COk (Some e)
         | None => COk None
         end
  end.
(* try_acc: a symbol named ac0 .. ac5 (any case; is_necessarily_label is not looked at) *)
Definition try_acc (n : P.node) : option Z :=
  match n with
  | P.Symbol _ _ name _ =>
      match P.str_lower name with
      | [a; c; d] => if ((a =? 97) && (c =? 99) && (48 <=? d) && (d <=? 53))%N then Some (Z.of_N d - 48)%Z else None
      | _ => None
      end
  | _ => None
  end.

(* ---- hoist ------------------------------------------------------------------------------------------------ *)
Fixpoint hoist (n : P.node) : conv P.node :=
  match n with
  | P.Infix s e op l r =>
      if leq op [36%N] then COk n else
      cdo rhs <- hoist r;
      match as_call rhs with
      | Some (cl, cr) =>
          cdo rg <- try_reg cr;
          match rg with
          | Some _ => COk (mk_call (P.Infix 0 0 op l cl) cr)
          | None => COk (P.Infix s e op l rhs)
          end
      | None => COk (P.Infix s e op l rhs)
      end
  | P.Prefix s e op x =>
      cdo operand <- hoist x;
      match as_call operand with
      | Some (cl, cr) =>
          cdo rg <- try_reg cr;
          match rg with
          | Some _ => COk (mk_call (P.Prefix 0 0 op cl) cr)
          | None => COk (P.Prefix s e op operand)
          end
      | None => COk (P.Prefix s e op operand)
      end
  | _ => COk n
  end.

(* ---- regmode ----------------------------------------------------------------------------------------------- *)
Definition reg_in_paren (n : P.node) : conv (option expr) :=
  match as_paren n with Some x => try_reg x | None => COk None end.
Definition opt_bind {A} (o : option P.node) (f : P.node -> conv (option A)) : conv (option A) :=
  match o with Some x => f x | None => COk None end.

Definition regmode (operand0 : P.node) : conv aoperand :=
  cdo operand <- hoist operand0;
  cdo r <- try_reg operand;
  match r with Some e => COk (AReg e) | None =>
  cdo r <- reg_in_paren operand;
  match r with Some e => COk (ARegDef e) | None =>
  let d := deferred_of operand in
  cdo r <- opt_bind d try_reg;
  match r with Some e => COk (ARegDef e) | None =>
  cdo r <- opt_bind (postadd_of operand) reg_in_paren;
  match r with Some e => COk (AAutoInc e) | None =>
  cdo r <- opt_bind d (fun x => opt_bind (postadd_of x) reg_in_paren);
  match r with Some e => COk (AAutoIncDef e) | None =>
  cdo r <- opt_bind (neg_of operand) reg_in_paren;
  match r with Some e => COk (AAutoDec e) | None =>
  cdo r <- opt_bind d (fun x => opt_bind (neg_of x) reg_in_paren);
  match r with Some e => COk (AAutoDecDef e) | None =>
  (* call with a deferred callee: @x(r) *)
  cdo r <- (match as_call operand with
            | Some (cl, cr) =>
                match deferred_of cl with
                | Some x => cdo rg <- try_reg cr;
                            match rg with Some e => cdo xe <- cexpr x; COk (Some (AIndexDef xe e)) | None => COk None end
                | None => COk None
                end
            | None => COk None
            end);
  match r with Some a => COk a | None =>
  cdo r <- (match as_call operand with
            | Some (cl, cr) => cdo rg <- try_reg cr;
                               match rg with Some e => cdo xe <- cexpr cl; COk (Some (AIndex xe e)) | None => COk None end
            | None => COk None
            end);
  match r with Some a => COk a | None =>
  cdo r <- opt_bind d reg_in_paren;
  match r with Some e => COk (AIndexDef (n_ 0) e) | None =>
  match immediate_of operand with Some x => cdo e <- cexpr x; COk (AImm e) | None =>
  match d with
  | Some x =>
      match immediate_of x with
      | Some y => cdo e <- cexpr y; COk (AAbs e)
      | None => cdo e <- cexpr x; COk (ARelDef e)
      end
  | None => cdo e <- cexpr operand; COk (ARel e)
  end end end end end end end end end end end end.

(* ---- fixup (OffsetOperandStub.encode's rewriting of the branch target) --------------------------------------- *)
Definition symlabel (repr : list N) : P.node := P.Symbol 0 0 repr true.
Fixpoint fix_label (n : P.node) (active : bool) : P.node * bool :=
  match n with
  | P.Infix s e op l r =>
      let '(l', a1) := fix_label l active in let '(r', a2) := fix_label r a1 in
      (P.Infix s e op l' r', a2)
  | P.Prefix s e op x => let '(x', a1) := fix_label x active in (P.Prefix s e op x', a1)
  | P.Postfix s e op x => let '(x', a1) := fix_label x active in (P.Postfix s e op x', a1)
  | P.Number _ _ repr _ true _ => if active then (symlabel repr, false) else (n, active)
  | P.Symbol _ _ _ _ | P.IPtr _ _ => (n, false)
  | _ => (n, active)
  end.
Definition node_end (n : P.node) : N :=
  match n with
  | P.Symbol _ e _ _ | P.Number _ e _ _ _ _ | P.CharLit _ e _ _ | P.IPtr _ e | P.Paren _ e _ _ _ | P.Infix _ e _ _ _
  | P.Prefix _ e _ _ | P.Postfix _ e _ _ | P.QuotedStr _ e _ _ | P.AngleChar _ e _ | P.Concat _ e _ | P.Insn _ e _ _
  | P.Words _ e _ | P.Label _ e _ _ | P.Assign _ e _ _ _ | P.Block _ e _ _ => e
  end.
(* Token.text(): code[ctx_start.pos:ctx_end.pos] *)
Definition token_text (text : list N) (n : P.node) : list N :=
  let s := N.to_nat (P.node_start n) in firstn (N.to_nat (node_end n) - s) (skipn s text).
Definition fixup (text : list N) (operand : P.node) : P.node :=
  match operand with
  | P.Number _ _ repr _ true _ => symlabel repr
  | _ =>
      if existsb (fun c => (c =? 40) || (c =? 58))%N (token_text text operand) then operand
      else fst (fix_label operand true)
  end.

(* ---- operand(stub, t) ------------------------------------------------------------------------------------------ *)
Definition is_block (n : P.node) : bool := match n with P.Block _ _ _ _ => true | _ => false end.
Definition coperand (text : list N) (k : stub_kind) (t : P.node) : conv aoperand :=
  if is_block t then CUnsup "code-block-operand" else
  match k with
  | SkFpRM =>
      match try_acc t with
      | Some a => COk (AAcc a)
      | None => cdo r <- try_reg t; match r with Some e => COk (AReg e) | None => regmode t end
      end
  | SkFpAcc => match try_acc t with Some a => COk (AAcc a) | None => regmode t end
  | SkRegister => cdo r <- try_reg t; match r with Some e => COk (AReg e) | None => CUnsup "register-expected" end
  | SkRegMode => regmode t
  | SkOffset => cdo e <- cexpr (fixup text t); COk (ARel e)
  | SkImmediate => match immediate_of t with
                   | Some x => cdo e <- cexpr x; COk (ARel e)
                   | None => cdo e <- cexpr t; COk (ARel e)
                   end
  end.

(* the operand stubs of a mnemonic: insns.instructions[name].operands, via Model/Insns.v's init() *)
Definition stub_kinds (m : string) : option (list stub_kind) :=
  match lookup_pat m opcode_table with
  | Some pat => match init_entry pat with Ok i => Some (map sk (stubs i)) | _ => None end
  | None => None
  end.

(* ---- strings ------------------------------------------------------------------------------------------------------ *)
Definition cchunk (c : P.node) : conv achunk :=
  match c with
  | P.AngleChar _ _ x => cdo e <- cexpr x; COk (CCode e)
  | P.QuotedStr _ _ _ s => COk (CStr s)
  | _ => CUnsup "string-chunk"
  end.
Definition chunk_list (t : P.node) : list P.node := match t with P.Concat _ _ l => l | _ => [t] end.
Definition cchunks (t : P.node) : conv (list achunk) := cmapM cchunk (chunk_list t).
Definition plain_string (t : P.node) : conv (list N) :=
  match t with P.QuotedStr _ _ _ s => COk s | _ => CUnsup "string-operand" end.
(* exprs(ops) *)
Definition cexprs (ops : list P.node) : conv (list expr) :=
  if existsb (fun o => match immediate_of o with Some _ => true | None => false end) ops then CUnsup "excess-hash"
  else if existsb is_block ops then CUnsup "code-block-operand"
  else cmapM cexpr ops.
Definition one_expr (ops : list P.node) : conv expr :=
  cdo es <- cexprs ops; match es with [e] => COk e | _ => CUnsup "operand-count" end.

(* ---- the file table ---------------------------------------------------------------------------------------------------- *)
Record fsentry := mkFs { fs_from : list N; fs_path : list N; fs_resolved : list N;
                         fs_text : option (list N); fs_bytes : option (list Z) }.
Fixpoint fs_find (fs : list fsentry) (from path : list N) : option fsentry :=
  match fs with
  | [] => None
  | e :: r => if leq (fs_from e) from && leq (fs_path e) path then Some e else fs_find r from path
  end.

(* converter state: next file id, times_included *)
Record cstate := mkSt { next_fid : nat; times : list (list N * nat) }.
Fixpoint times_of (t : list (list N * nat)) (k : list N) : nat :=
  match t with [] => O | (k', v) :: r => if leq k k' then v else times_of r k end.
Fixpoint bump (t : list (list N * nat)) (k : list N) : list (list N * nat) :=
  match t with
  | [] => [(k, 1%nat)]
  | (k', v) :: r => if leq k k' then (k', S v) :: r else (k', v) :: bump r k
  end.

(* parse_with: the tree, unless the parser reported an error-severity diagnostic or aborted *)
Definition parse_fuel (text : list N) : nat := (8 * (length text + 16))%nat.
Definition parse_for_conv (text : list N) : option (list P.node) :=
  match P.parse_file (parse_fuel text) text with
  | P.POk (P.Block _ _ _ insns) ds =>
      if forallb (fun d => (fst (fst d) =? 0)%N) ds then Some insns else None
  | _ => None
  end.

Record env := mkEnv { e_file : list N; e_text : list N; e_depth : nat }.

Section Stmt.
Variable fs : list fsentry.
(* the recursive calls: block(blk, in_repeat) one level down *)
Variable rec_block : env -> bool -> cstate -> list P.node -> conv (cstate * list stmt).

Definition need_n (ops : list P.node) (lo hi : nat) : bool := (lo <=? length ops)%nat && (length ops <=? hi)%nat.
Definition seq_eq (a : list N) (s : string) : bool := leq a (lit s).
Definition mem_name (a : list N) (l : list string) : bool := existsb (seq_eq a) l.

Definition cinclude (E : env) (st : cstate) (path : list N) : conv (cstate * list stmt) :=
  match fs_find fs (e_file E) path with
  | None => CUnsup "include-missing-file"
  | Some ent =>
      match fs_text ent with
      | None => CUnsup "include-missing-file"
      | Some text =>
          if (8 <=? e_depth E)%nat then CUnsup "include-depth" else
          let st1 := mkSt (S (next_fid st)) (bump (times st) (fs_resolved ent)) in
          let fid := next_fid st in
          match parse_for_conv text with
          | None => CUnsup "include-parse"
          | Some insns =>
              cdo r <- rec_block (mkEnv (fs_resolved ent) text (S (e_depth E))) false st1 insns;
              COk (fst r, [Include true fid (snd r)])
          end
      end
  end.

Definition cmeta (E : env) (in_repeat : bool) (st : cstate) (name : list N) (ops : list P.node) : conv (cstate * list stmt) :=
  let ret1 := fun (s : conv stmt) => cdo x <- s; COk (st, [x]) in
  if mem_name name [".byte"; ".db"] then ret1 (cdo es <- cexprs ops; COk (Byte es))
  else if mem_name name [".word"; ".dw"] then ret1 (cdo es <- cexprs ops; COk (Word es))
  else if seq_eq name ".dword" then ret1 (cdo es <- cexprs ops; COk (Dword es))
  else if mem_name name [".blkb"; ".blkw"; ".align"] then
    if negb (need_n ops 1 1) then CUnsup "operand-count" else
    ret1 (cdo e <- one_expr ops;
          COk (if seq_eq name ".blkb" then Blkb e else if seq_eq name ".blkw" then Blkw e else Align e))
  else if mem_name name [".even"; ".odd"] then
    if negb (need_n ops 0 0) then CUnsup "operand-count" else ret1 (COk (if seq_eq name ".even" then Even else Odd))
  else if mem_name name [".ascii"; ".asciz"] then
    match ops with
    | [o] => ret1 (cdo cs <- cchunks o; COk (Ascii (seq_eq name ".asciz") cs))
    | _ => CUnsup "operand-count"
    end
  else if seq_eq name ".rad50" then
    match ops with
    | [o] =>
        if existsb (fun c => match c with P.QuotedStr _ _ _ s => negb (forallb (fun x => (x <? 128)%N) s) | _ => false end) (chunk_list o)
        then CUnsup "rad50-non-ascii" else ret1 (cdo cs <- cchunks o; COk (Rad50 cs))
    | _ => CUnsup "operand-count"
    end
  else if seq_eq name ".link" then
    if negb (need_n ops 1 1) then CUnsup "operand-count" else ret1 (cdo e <- one_expr ops; COk (Link e))
  else if seq_eq name ".repeat" then
    match ops with
    | [cnt; P.Block _ _ _ insns] =>
        if is_block cnt then CUnsup "operand-count:.repeat" else
        cdo e <- one_expr [cnt];
        cdo r <- rec_block E true st insns;
        COk (fst r, [Repeat e (snd r)])
    | _ => CUnsup "operand-count:.repeat"
    end
  else if seq_eq name "insert_file" then
    match ops with
    | [o] =>
        cdo path <- plain_string o;
        match fs_find fs (e_file E) path with
        | Some ent => match fs_bytes ent with Some b => COk (st, [Insert b]) | None => CUnsup "insert-missing-file" end
        | None => CUnsup "insert-missing-file"
        end
    | _ => CUnsup "operand-count"
    end
  else if mem_name name ["make_bin"; "make_raw"; "make_bk0010_rom"] then
    if negb (need_n ops 0 1) then CUnsup "operand-count" else
    cdo _x <- cmapM plain_string ops; COk (st, [NoOp])
  else if mem_name name ["make_wav"; "make_turbo_wav"] then
    match ops with
    | [a; b] =>
        cdo _x <- plain_string a;
        cdo nm <- plain_string b;
        if forallb (fun c => (32 <=? c)%N && (c <? 127)%N) nm && (length nm <=? 16)%nat then COk (st, [NoOp]) else CUnsup "tape-name"
    | _ => CUnsup "operand-count"
    end
  else if mem_name name [".list"; ".nlist"; ".page"] then
    if negb (need_n ops 0 0) then CUnsup "operand-count" else COk (st, [NoOp])
  else if mem_name name [".title"; ".sbttl"] then
    (* without text the code reports wrong-meta-operands *)
    if negb (need_n ops 1 1) then CUnsup "operand-count" else COk (st, [NoOp])
  else if seq_eq name ".once" then
    if negb (need_n ops 0 0) then CUnsup "operand-count"
    else if (2 <=? times_of (times st) (e_file E))%nat then CUnsup "once-second-inclusion" else COk (st, [NoOp])
  else if seq_eq name ".include" then
    match ops with
    | [o] => if in_repeat then CUnsup "include-inside-repeat" else cdo path <- plain_string o; cinclude E st path
    | _ => CUnsup "operand-count"
    end
  else if seq_eq name ".extern" then
    if negb (forallb (fun o => match o with P.Symbol _ _ _ _ => true | _ => false end) ops) then CUnsup "extern-operand" else
    let names := map (fun o => match o with P.Symbol _ _ nm _ => P.str_lower nm | _ => [] end) ops in
    if existsb (fun nm => seq_eq nm "all") names then
      match names with [_] => COk (st, [ExternAll]) | _ => CUnsup "extern-all-mixed" end
    else cdo ss <- cmapM name_str names; COk (st, [Extern ss])
  else if seq_eq name ".end" then
    if negb (need_n ops 0 0) then CUnsup "operand-count" else COk (st, [End])
  else CUnsup "directive".

Fixpoint assoc_codes (k : list N) (t : list (list N * list N)) : option (list N) :=
  match t with [] => None | (k', v) :: r => if leq k k' then Some v else assoc_codes k r end.

Definition cstmt (E : env) (in_repeat : bool) (st : cstate) (s : P.node) : conv (cstate * list stmt) :=
  match s with
  | P.Label _ _ name ext =>
      let digit := match name with c :: _ => P.is_digit c | [] => false end in
      cdo nm <- name_str name;
      if ext then (if digit then CUnsup "extern-local-label" else COk (st, [Label nm; Extern [nm]]))
      else if digit then COk (st, [LocalLabel nm]) else COk (st, [Label nm])
  | P.Assign _ _ target value ext =>
      match target with
      | P.IPtr _ _ => cdo e <- cexpr value; COk (st, [Skip e])
      | P.Symbol _ _ name _ =>
          if (match name with c :: _ => P.is_digit c | [] => false end) || (match reg_number name with Some _ => true | None => false end)
          then CUnsup "assignment-target" else
          cdo nm <- name_str name;
          cdo e <- cexpr value;
          COk (st, if ext then [Assign nm e; Extern [nm]] else [Assign nm e])
      | _ => CUnsup "assignment-target"
      end
  | P.Words _ _ ws => cdo es <- cexprs ws; COk (st, [WordList es])
  | P.Insn _ _ (P.Symbol _ _ name0 _) ops =>
      let name := P.str_lower name0 in
      match (match P.lookup_cmd name with
             | Some c => Some (name, c)
             | None => match P.lookup_cmd (46%N :: name) with Some c => Some (46%N :: name, c) | None => None end
             end) with
      | None => CUnsup "implicit-word-or-unknown-insn"
      | Some (key, c) =>
          if c_meta c then
            match assoc_codes key meta_canonical with
            | Some canon => cmeta E in_repeat st canon ops
            | None => CUnsup "directive"
            end
          else
            if match rev ops with o :: _ => is_block o | [] => false end then CUnsup "code-block-operand" else
            cdo m <- name_str key;
            match stub_kinds m with
            | None => CUnsup "stub"
            | Some ks =>
                if negb (Nat.eqb (length ops) (length ks)) then COk (st, [Insn m (map (fun _ => AAcc 0) ops)])
                else cdo os <- cmapM (fun p => coperand (e_text E) (fst p) (snd p)) (combine ks ops);
                     COk (st, [Insn m os])
            end
      end
  | _ => CUnsup "statement"
  end.

Fixpoint cstmts (E : env) (in_repeat : bool) (st : cstate) (l : list P.node) : conv (cstate * list stmt) :=
  match l with
  | [] => COk (st, [])
  | s :: r => cdo a <- cstmt E in_repeat st s; cdo b <- cstmts E in_repeat (fst a) r; COk (fst b, snd a ++ snd b)
  end.
End Stmt.

(* block(): one fuel unit per nesting level (code block or included file) *)
Fixpoint cblock (fs : list fsentry) (fuel : nat) (E : env) (in_repeat : bool) (st : cstate) (l : list P.node) : conv (cstate * list stmt) :=
  match fuel with
  | O => CUnsup "nesting-fuel"
  | S f => cstmts fs (cblock fs f) E in_repeat st l
  end.

(* convert(filename, text, fs) *)
Definition to_asm (fs : list fsentry) (name : list N) (text : list N) : conv program :=
  match parse_for_conv text with
  | None => CUnsup "parse"
  | Some insns => cdo r <- cblock fs 64 (mkEnv name text 0) false (mkSt 1 []) insns; COk (snd r)
  end.
