(* Model/AsmRelocBytes.v -- which words of a statement's bytes hold an absolute address (and so move with the link
   base), and what moving them by d does to the bytes.  Used by Props/R_reloc.v (R_relocation_bytes): for a program of
   the class reloc_ok (Model/AsmT.v) the image at base b + d IS the image at base b with exactly these words moved.
   No proofs here.

   A statement's bytes are seen as 16-bit little-endian words from its first byte on; [stmt_mask s] says, word by word,
   whether the word holds an absolute label: for an instruction the opcode word never does, then one entry per
   extension word in operand order (an immediate #label / absolute @#label under a register-mode or floating
   register-mode stub does; index words, relative words do not); for .word / a word list one entry per operand (a
   bare label does).  Every other statement of the class has the empty mask: its bytes do not move at all. *)
From Coq Require Import ZArith List String Ascii Bool NArith.
From Verif Require Import Base.Res Base.Bytes Spec.Arith Gen.GenOpcodes Model.Insns Model.Asm Model.AsmT.
Import ListNotations.
Notation length := Datatypes.length.
Open Scope string_scope.
Open Scope list_scope.
Open Scope Z_scope.

(* the operand is an immediate / absolute whose value is a bare label *)
Definition opnd_moves (o : aoperand) : bool :=
  match o with AImm e | AAbs e => is_sym e | _ => false end.

(* the extension words of one operand under its stub (0 or 1 of them, by FORM: Asm.ext_of_a) *)
Definition opnd_mask (st : stub) (o : aoperand) : list bool :=
  match ext_of_a st o with O => [] | S _ => [opnd_moves o] end.

Fixpoint ops_mask (sts : list stub) (ops : list aoperand) : list bool :=
  match sts, ops with
  | st :: sts', o :: ops' => opnd_mask st o ++ ops_mask sts' ops'
  | _, _ => []
  end.

Definition insn_mask (m : string) (ops : list aoperand) : list bool :=
  if inline_num m then [] else
  match lookup_pat m opcode_table with
  | Some pat => match init_entry pat with Ok i => false :: ops_mask (stubs i) ops | _ => [] end
  | None => []
  end.

Definition stmt_mask (s : stmt) : list bool :=
  match s with
  | Insn m ops => insn_mask m ops
  | Word es | WordList es => map is_sym es
  | _ => []
  end.

(* byte offsets (from the statement's first byte) of the words that hold an absolute label *)
Fixpoint mask_offsets (pos : Z) (mask : list bool) : list Z :=
  match mask with
  | [] => []
  | m :: r => (if m then [pos] else []) ++ mask_offsets (pos + 2) r
  end.

Definition abs_word_offsets (s : stmt) : list Z := mask_offsets 0 (stmt_mask s).

(* ---- moving the marked words by d ------------------------------------------------------------------------------ *)
Definition shift_word (d w : Z) : Z := (w + d) mod 65536.

(* on words: marked words move, the others (and everything after the mask) stay *)
Fixpoint shiftw (d : Z) (mask : list bool) (ws : list Z) : list Z :=
  match mask, ws with
  | m :: mask', w :: ws' => (if m then shift_word d w else w) :: shiftw d mask' ws'
  | _, _ => ws
  end.

(* on bytes: the same, two bytes at a time, little-endian; an unmarked pair is copied as it is *)
Fixpoint patch_bytes (d : Z) (mask : list bool) (c : list Z) : list Z :=
  match mask, c with
  | m :: mask', x :: y :: r =>
      (if m then le16 (shift_word d (word_of x y)) else [x; y]) ++ patch_bytes d mask' r
  | _, _ => c
  end.

(* ---- the same said byte by byte ---------------------------------------------------------------------------------- *)
Definition byte_at (c : list Z) (i : Z) : Z := nth (Z.to_nat i) c 0.
Definition word_at (c : list Z) (o : Z) : Z := word_of (byte_at c o) (byte_at c (o + 1)).
(* byte offset i lies inside one of the listed words *)
Definition in_word (offs : list Z) (i : Z) : bool := existsb (fun o => (o <=? i) && (i <? o + 2)) offs.

(* two byte strings of the same length that agree at every offset outside the listed words, and whose listed words
   (which lie inside the strings) differ by exactly d modulo 2^16 *)
Definition chunk_reloc (d : Z) (offs : list Z) (c c' : list Z) : Prop :=
  length c' = length c /\
  (forall i, 0 <= i -> in_word offs i = false -> byte_at c' i = byte_at c i) /\
  (forall o, In o offs -> 0 <= o /\ o + 2 <= Z.of_nat (length c) /\ word_at c' o = (word_at c o + d) mod 65536).

(* statement by statement: item, its bytes at base b, its bytes at base b + d *)
Inductive Forall3 {A B C} (R : A -> B -> C -> Prop) : list A -> list B -> list C -> Prop :=
| F3_nil : Forall3 R [] [] []
| F3_cons a b c la lb lc : R a b c -> Forall3 R la lb lc -> Forall3 R (a :: la) (b :: lb) (c :: lc).

(* the words of the whole image that hold an absolute label: offsets from the first byte of the image *)
Fixpoint image_offsets (pos : Z) (items : list item) (chunks : list (list Z)) : list Z :=
  match items, chunks with
  | it :: items', c :: chunks' =>
      map (Z.add pos) (abs_word_offsets (i_stmt it)) ++ image_offsets (pos + Z.of_nat (length c)) items' chunks'
  | _, _ => []
  end.

(* the image at the other base, computed from the image at this base *)
Definition patch_chunks (d : Z) (items : list item) (chunks : list (list Z)) : list (list Z) :=
  map (fun ic => patch_bytes d (stmt_mask (i_stmt (fst ic))) (snd ic)) (combine items chunks).
